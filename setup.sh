#!/bin/sh
# Build the overlay virtualenv /verif/.venv (offline): /venv's site-packages (sly,
# numpy, pygsti ...) stay visible through a .pth file, /repo/src is put on the path so
# the *working tree* of jaqalpaq is what every check imports, and crosshair-tool +
# z3-solver + cvc5 come from the local wheelhouse.  Idempotent; every check calls it.
set -e
HERE="$(cd "$(dirname "$0")" && pwd)"
V="$HERE/.venv"
STAMP="$V/.vf_ready_v2"
if [ -f "$STAMP" ] && [ -x "$V/bin/crosshair" ]; then
    exit 0
fi
# serialise concurrent callers
exec 9>"$HERE/.setup.lock"
flock 9
if [ -f "$STAMP" ] && [ -x "$V/bin/crosshair" ]; then
    exit 0
fi
rm -rf "$V"
/venv/bin/python -m venv "$V"
SP="$V/lib/python3.12/site-packages"
printf '/venv/lib/python3.12/site-packages\n/repo/src\n' > "$SP/vf_base.pth"
PIP_NO_INDEX=1 "$V/bin/pip" install -q --no-index --find-links /opt/veriftools/wheels \
    crosshair-tool z3-solver cvc5 jsonschema >/dev/null
"$V/bin/python" -c "import crosshair, z3, sly, jaqalpaq.core"
touch "$STAMP"
