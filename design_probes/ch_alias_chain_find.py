from jaqalpaq.core.register import Register, NamedQubit
from jaqalpaq.error import JaqalError

def chain1(size: int, start: int, stop: int, step: int, idx: int) -> int:
    """
    pre: 1 <= size <= 8 and step != 0
    pre: -3 <= start <= 9 and -3 <= stop <= 9 and -3 <= step <= 4 and -3 <= idx <= 9
    post: 0 <= _ < size or _ == -1
    """
    r = Register("r", size)
    try:
        a = Register("a", alias_from=r, alias_slice=slice(start, stop, step))
        q = a[idx]
        reg, i = q.resolve_qubit()
    except JaqalError:
        return -1
    return i
