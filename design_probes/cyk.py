"""CFG bounded-equivalence via CYK encoding in z3 (prototype)."""
import sys, time, itertools, z3

def to_cnf(prods, start):
    """prods: list of (lhs, tuple(rhs)); terminals are symbols that never appear as lhs.
    Returns (unit-free, eps-free grammar in binary form): dict nt -> set of rhs tuples (len 1 terminal or len 2 symbols),
    plus nullable(start)."""
    nts = {l for l, _ in prods}
    # 1. binarise
    P = []
    cnt = [0]
    for l, r in prods:
        r = tuple(r)
        while len(r) > 2:
            cnt[0] += 1
            n = f"_b{cnt[0]}"
            P.append((n, r[-2:])); nts.add(n)
            r = r[:-2] + (n,)
        P.append((l, r))
    # 2. nullable
    nullable = set()
    ch = True
    while ch:
        ch = False
        for l, r in P:
            if l not in nullable and all(x in nullable for x in r):
                nullable.add(l); ch = True
    # 3. eps elimination
    Q = set()
    for l, r in P:
        if len(r) == 0: continue
        if len(r) == 1: Q.add((l, r))
        else:
            a, b = r
            Q.add((l, r))
            if a in nullable: Q.add((l, (b,)))
            if b in nullable: Q.add((l, (a,)))
    # 4. unit closure
    unit = {n: {n} for n in nts}
    ch = True
    while ch:
        ch = False
        for l, r in Q:
            if len(r) == 1 and r[0] in nts:
                for n in nts:
                    if l in unit[n] and r[0] not in unit[n]:
                        unit[n].add(r[0]); ch = True
    G = {n: set() for n in nts}
    for n in nts:
        for m in unit[n]:
            for l, r in Q:
                if l == m and not (len(r) == 1 and r[0] in nts):
                    G[n].add(r)
    return G, nts, (start in nullable)

def cyk(G, nts, start, nullable_start, toks, terms, L, tag):
    """toks: list of z3 Int token vars (length N), L: z3 Int length var. Returns Bool 'accepts'."""
    N = len(toks)
    T = {}
    cons = []
    # only need nts reachable; create vars lazily
    def var(A, i, l):
        k = (A, i, l)
        if k not in T:
            T[k] = z3.Bool(f"{tag}_{A}_{i}_{l}")
        return T[k]
    tid = {t: i for i, t in enumerate(terms)}
    for l in range(1, N + 1):
        for i in range(0, N - l + 1):
            for A in nts:
                alts = []
                for r in G[A]:
                    if len(r) == 1:
                        if l == 1 and r[0] in tid:
                            alts.append(toks[i] == tid[r[0]])
                    else:
                        B, C = r
                        for k in range(1, l):
                            if B in nts: b = var(B, i, k)
                            else:
                                if k != 1 or B not in tid: continue
                                b = toks[i] == tid[B]
                            if C in nts: c = var(C, i + k, l - k)
                            else:
                                if l - k != 1 or C not in tid: continue
                                c = toks[i + k] == tid[C]
                            alts.append(z3.And(b, c))
                cons.append(var(A, i, l) == (z3.Or(*alts) if alts else z3.BoolVal(False)))
    acc = z3.Or(*([z3.And(L == l, var(start, 0, l)) for l in range(1, N + 1)] + ([L == 0] if nullable_start else [])))
    return acc, cons

if __name__ == "__main__":
    from jaqalpaq.parser.slyparse import JaqalParser
    g = JaqalParser._grammar
    terms = [x for x in g.Terminals if x != 'error']
    sly = [(p.name, tuple(p.prod)) for p in g.Productions[1:]]
    N = int(sys.argv[1])
    mode = sys.argv[2] if len(sys.argv) > 2 else "same"
    ref = list(sly)
    if mode == "drop":
        ref = [p for p in sly if p != ("seqsep", ("NL", "seqsep"))]
    elif mode == "ref":
        from refgrammar import REF
        ref = REF
    G1, n1, e1 = to_cnf(sly, "start")
    G2, n2, e2 = to_cnf(ref, "start")
    toks = [z3.Int(f"t{i}") for i in range(N)]
    L = z3.Int("L")
    s = z3.Solver()
    for t in toks: s.add(0 <= t, t < len(terms))
    s.add(0 <= L, L <= N)
    t0 = time.time()
    a1, c1 = cyk(G1, n1, "start", e1, toks, terms, L, "A")
    a2, c2 = cyk(G2, n2, "start", e2, toks, terms, L, "B")
    s.add(*c1); s.add(*c2)
    s.add(a1 != a2)
    print("encode", round(time.time() - t0, 1), "s; constraints", len(c1) + len(c2))
    t0 = time.time()
    r = s.check()
    print(r, round(time.time() - t0, 1), "s")
    if str(r) == "sat":
        m = s.model(); n = m[L].as_long()
        print([terms[m.eval(t, model_completion=True).as_long()] for t in toks[:n]], "sly accepts:", m.eval(a1), "ref accepts:", m.eval(a2))
