"""Prototype: translate the emulator's index kernel from the real source into z3 bit-vectors."""
import ast, inspect, textwrap, time, z3
from jaqalpaq.emulator.unitary import UnitarySerializedEmulator
W = 16
src = textwrap.dedent(inspect.getsource(UnitarySerializedEmulator._make_subcircuit))
fn = ast.parse(src).body[0]
# find: for i in range(hilb_dim)
def find_loop(node):
    for n in ast.walk(node):
        if isinstance(n, ast.For) and isinstance(n.target, ast.Name) and n.target.id == "i" and isinstance(n.iter, ast.Call) and getattr(n.iter.func, "id", None) == "range":
            return n
loop = find_loop(fn)
class Unsupported(Exception): pass
def bv(x): return z3.BitVecVal(x, W) if isinstance(x, int) else x
class Interp:
    def __init__(self, env, k):
        self.env = dict(env); self.k = k; self.events = []; self.pc = z3.BoolVal(True)
    def ev(self, e):
        if isinstance(e, ast.Constant) and isinstance(e.value, int): return bv(e.value)
        if isinstance(e, ast.Name):
            if e.id not in self.env: raise Unsupported(f"read of unassigned {e.id}")
            return self.env[e.id]
        if isinstance(e, ast.BinOp):
            a, b = self.ev(e.left), self.ev(e.right)
            op = type(e.op)
            if op is ast.BitAnd: return a & b
            if op is ast.BitOr: return a | b
            if op is ast.BitXor: return a ^ b
            if op is ast.LShift: return a << b
            if op is ast.RShift: return z3.LShR(a, b)
            if op is ast.Add: return a + b
            if op is ast.Sub: return a - b
            raise Unsupported(op)
        raise Unsupported(ast.dump(e))
    def truth(self, e):
        v = self.ev(e)
        return v != 0
    def assign(self, name, val):
        old = self.env.get(name)
        self.env[name] = val if (old is None or z3.is_true(self.pc)) else z3.If(self.pc, val, old)
    def run(self, stmts):
        for s in stmts:
            if isinstance(s, ast.Assign) and len(s.targets) == 1 and isinstance(s.targets[0], ast.Name):
                self.assign(s.targets[0].id, self.ev(s.value))
            elif isinstance(s, ast.AugAssign) and isinstance(s.target, ast.Name):
                cur = self.ev(s.target)
                b = ast.BinOp(left=s.target, op=s.op, right=s.value)
                self.assign(s.target.id, self.ev(b))
            elif isinstance(s, ast.AugAssign) and isinstance(s.target, ast.Subscript):
                # vec[i] += inp[j] * dsub[r, c]
                tgt = s.target
                if not (isinstance(s.op, ast.Add) and getattr(tgt.value, "id", None) == "vec"): raise Unsupported("augassign")
                v = s.value
                if not (isinstance(v, ast.BinOp) and isinstance(v.op, ast.Mult)): raise Unsupported("rhs")
                l, r = v.left, v.right
                if getattr(l.value, "id", None) != "inp" or getattr(r.value, "id", None) != "dsub": raise Unsupported("operands")
                row, col = r.slice.elts
                self.events.append((self.pc, self.ev(tgt.slice), self.ev(l.slice), self.ev(row), self.ev(col)))
            elif isinstance(s, ast.If) and not s.orelse:
                c = self.truth(s.test); save = self.pc
                self.pc = z3.And(save, c); self.run(s.body); self.pc = save
            elif isinstance(s, ast.For) and isinstance(s.iter, ast.Name) and s.iter.id == "qind":
                for q in self.env["qind"]:
                    self.assign(s.target.id, q); self.run(s.body)
            elif isinstance(s, ast.For) and ast.unparse(s.iter) == "range(dsub.shape[0])":
                for c in range(2 ** self.k):
                    self.assign(s.target.id, bv(c)); self.run(s.body)
            elif isinstance(s, ast.Expr) and isinstance(s.value, ast.Constant):
                pass
            else:
                raise Unsupported(ast.dump(s)[:80])
total = 0
for k in (1, 2, 3):
    i = z3.BitVec("i", W); n = z3.BitVec("n", W)
    q = [z3.BitVec(f"q{t}", W) for t in range(k)]
    it = Interp({"i": i, "qind": q}, k)
    it.run(loop.body)
    s = z3.Solver()
    s.add(z3.ULE(1, n), z3.ULE(n, 8), z3.ULT(i, bv(1) << n))
    for a in q: s.add(z3.ULT(a, n))
    s.add(z3.Distinct(*q)) if k > 1 else None
    # spec
    def bit(x, p): return z3.LShR(x, p) & 1
    spec_row = bv(0)
    qmask = bv(0)
    for t in range(k):
        spec_row = spec_row | (bit(i, q[t]) << t)
        qmask = qmask | (bv(1) << q[t])
    bad = []
    assert len(it.events) == 2 ** k
    cols = set()
    for pc, ti, j, row, col in it.events:
        c = z3.simplify(col).as_long(); cols.add(c)
        spec_j = i & ~qmask
        for t in range(k):
            if (c >> t) & 1: spec_j = spec_j | (bv(1) << q[t])
        bad.append(z3.Or(z3.Not(pc), ti != i, row != spec_row, j != spec_j))
    assert cols == set(range(2 ** k))
    s.add(z3.Or(*bad))
    t0 = time.time(); r = s.check(); print("k=", k, r, round(time.time() - t0, 2), "s")
    if str(r) == "sat": print(s.model())
