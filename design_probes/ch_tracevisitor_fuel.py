import atexit, sys
from jaqalpaq.core import circuitbuilder
from jaqalpaq.core.circuitbuilder import build
from jaqalpaq.core.algorithm.walkers import DiscoverSubcircuits, TraceVisitor
from jaqalpaq.error import JaqalError
CNT = [0]
atexit.register(lambda: sys.stderr.write(f"PATHS={CNT[0]}\n"))

class Fuel(Exception): pass

class W(TraceVisitor):
    def __init__(self, traces):
        super().__init__(traces)
        self.seen = []
        self.fuel = 200
    def process_trace(self):
        self.seen.append(self.index)
    def visit(self, obj, *a, **k):
        self.fuel -= 1
        if self.fuel < 0:
            raise Fuel()
        return super().visit(obj, *a, **k)

NAMES = ["prepare_all", "measure_all", "g"]
def stmt(k):
    return ["gate", NAMES[k]]

def walk(k0: int, k1: int, k2: int, k3: int, n1: int, n2: int) -> bool:
    """
    pre: 0 <= k0 < 3 and 0 <= k1 < 3 and 0 <= k2 < 3 and 0 <= k3 < 3 and 0 <= n1 <= 3 and 0 <= n2 <= 3
    post: _
    """
    CNT[0] += 1
    sexpr = ["circuit", ["register", "r", 1],
             ["loop", n1, ["sequential_block", stmt(k0), ["loop", n2, ["sequential_block", stmt(k1), stmt(k2)]], stmt(k3)]]]
    c = build(sexpr)
    try:
        traces = DiscoverSubcircuits().visit(c)
    except JaqalError:
        return True
    w = W(traces)
    w.visit(c)
    return True
