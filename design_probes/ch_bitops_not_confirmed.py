def bits(i: int, q0: int, q1: int) -> int:
    """
    pre: 0 <= i < 32 and 0 <= q0 < 5 and 0 <= q1 < 5 and q0 != q1
    post: _ == ((i >> q0) & 1) + 2*((i >> q1) & 1)
    """
    mask = i
    row = 0
    bit = 1
    for k in (q0, q1):
        n_high = mask & (1 << k)
        mask ^= n_high
        if n_high:
            row |= bit
        bit <<= 1
    return row
