import os, atexit, sys
from jaqalpaq.core.circuitbuilder import build
from jaqalpaq.error import JaqalError
CNT = [0]
atexit.register(lambda: sys.stderr.write(f"PATHS={CNT[0]}\n"))

def h1(n: int, size: int) -> bool:
    """
    pre: 1 <= size <= 6 and 0 <= n <= 40
    post: _
    """
    CNT[0] += 1
    sexpr = ["circuit", ["register", "r", size], ["gate", "h", ("array_item", "r", n)]]
    try:
        c = build(sexpr)
    except JaqalError:
        return not (0 <= n < size)
    return 0 <= n < size
