import traceback
from jaqalpaq.parser import parse_jaqal_string as P
from jaqalpaq.generator import generate_jaqal_program as G
from jaqalpaq.core.algorithm import expand_macros, fill_in_let, expand_subcircuits, normalize_blocks_with_unitary_timing
from jaqalpaq.core.algorithm.fill_in_map import fill_in_map
def t(label, f):
    try:
        r = f()
        print("==", label, "->", r)
    except Exception as e:
        print("==", label, "EXC", type(e).__name__, e)
t("float exp", lambda: G(P("let y 0.000001\nregister r[2]\ng r[0] y", autoload_pulses=False)))
t("float exp rt", lambda: P(G(P("let y 0.000001\nregister r[2]\ng r[0] y", autoload_pulses=False)), autoload_pulses=False))
t("two comments", lambda: P("register r[2]\n/* a */ g r[0] /* b */\n h r[1]", autoload_pulses=False).body)
t("subcircuit let count", lambda: G(P("let n 3\nregister r[2]\nsubcircuit n { g r[0] }", autoload_pulses=False)))
t("expand_macros subcircuit", lambda: expand_macros(P("register r[2]\nmacro m a { g a }\nsubcircuit 5 { m r[0] }", autoload_pulses=False)).body)
t("fill_in_let subcircuit", lambda: fill_in_let(P("let n 3\nregister r[2]\nsubcircuit n { g r[0] }", autoload_pulses=False)).body)
t("fill_in_map", lambda: fill_in_map(P("register r[2]\nmap a r[1]\n g a", autoload_pulses=False)).body)
t("fill_in_map reg arg", lambda: fill_in_map(P("register r[2]\nmap a r\n g a", autoload_pulses=False)).body)
t("unit timing subcircuit", lambda: normalize_blocks_with_unitary_timing(P("register r[2]\nsubcircuit 5 { g r[0] }", autoload_pulses=False)).body)
t("neg index", lambda: P("register r[2]\n g r[-1]", autoload_pulses=False).body)
t("macro nested seq in loop", lambda: G(expand_macros(P("register r[2]\nmacro a x { g x }\nmacro b y { a y }\nloop 2 { b r[0] }", autoload_pulses=False))))
t("memo", lambda: P("let a 1\nregister q[3]\nmacro m a { g q[a] }\n g q[a]", autoload_pulses=False).body)
t("memo2", lambda: P("let a 1\nregister q[3]\nmacro m a { g q[a] }\n g q[a]", autoload_pulses=False).macros['m'].body)
t("macro in subcircuit count param", lambda: G(P("register r[2]\nmacro m n { g r[n] }\n m 1", autoload_pulses=False)))
