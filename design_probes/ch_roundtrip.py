import atexit, sys
from jaqalpaq.core.circuitbuilder import build
from jaqalpaq.generator import generate_jaqal_program
from jaqalpaq.parser import parse_jaqal_string
from jaqalpaq.error import JaqalError
CNT = [0]
atexit.register(lambda: sys.stderr.write(f"PATHS={CNT[0]}\n"))

def rt(n: int, k: int, size: int, a: int, b: int) -> str:
    """
    pre: 1 <= size <= 3 and -1 <= n <= 3 and 0 <= k <= 2 and -1 <= a <= 3 and 0 <= b <= 4
    post: _ == ""
    """
    CNT[0] += 1
    sexpr = ["circuit", ["let", "n", n], ["register", "r", size], ["map", "m", "r", a, b, None],
             ["macro", "f", "x", ["sequential_block", ["gate", "g", ("array_item", "r", "x"), n]]],
             ["loop", k, ["sequential_block", ["gate", "f", "n"], ["gate", "h", ("array_item", "m", "n")]]]]
    try:
        c = build(sexpr)
    except JaqalError:
        return ""
    text = generate_jaqal_program(c)
    try:
        c2 = parse_jaqal_string(text, autoload_pulses=False)
    except JaqalError as e:
        return "reparse failed: " + text
    if c2 != c:
        return "unequal: " + text
    if generate_jaqal_program(c2) != text:
        return "text differs"
    return ""
