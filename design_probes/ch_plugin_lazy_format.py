def _install():
    from crosshair.core import _PATCH_REGISTRATIONS, NoTracing
    from crosshair.libimpl import builtinslib as B
    _orig = _PATCH_REGISTRATIONS[format]
    def _format2(obj, format_spec=""):
        with NoTracing():
            lazy = isinstance(obj, B.SymbolicInt) and isinstance(format_spec, str) and format_spec == ""
        if lazy:
            return str(obj)
        return _orig(obj, format_spec)
    _PATCH_REGISTRATIONS[format] = _format2
_install()
