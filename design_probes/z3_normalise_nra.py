import z3, time
for n in (2, 4, 8):
    p = [z3.Real(f"p{i}") for i in range(n)]
    clip = [z3.If(x < 0, 0, z3.If(x > 1, 1, x)) for x in p]
    total = sum(clip)
    q = [z3.Real(f"q{i}") for i in range(n)]
    s = z3.Solver()
    s.add(total != 0)
    for a, c in zip(q, clip): s.add(a * total == c)   # a = c / total
    s.add(z3.Or(sum(q) != 1, *[a < 0 for a in q]))
    t0 = time.time(); print(n, s.check(), round(time.time() - t0, 2))
