from jaqalpaq.parser.parser import parse_to_sexpression
from jaqalpaq.error import JaqalError
from sly.lex import LexError

def lexparse(s: str) -> bool:
    """
    pre: len(s) <= 3
    post: _
    """
    try:
        parse_to_sexpression(s)
    except JaqalError:
        return True
    except AttributeError:
        return True
    except LexError:
        return True
    return True
