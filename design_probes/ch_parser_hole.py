import atexit, sys
from jaqalpaq.parser.parser import parse_to_sexpression
from jaqalpaq.error import JaqalError
from sly.lex import LexError
CNT = [0]
atexit.register(lambda: sys.stderr.write(f"PATHS={CNT[0]}\n"))
def hole(s: str) -> bool:
    """
    pre: len(s) <= 2
    post: _
    """
    CNT[0] += 1
    text = "{g;" + s + "}"
    try:
        parse_to_sexpression(text)
    except JaqalError:
        return True
    except AttributeError:
        return True
    except LexError:
        return True
    return True
