import atexit, sys
from jaqalpaq.parser.parser import parse_to_sexpression
from jaqalpaq.error import JaqalError
from sly.lex import LexError
ALPHA = "aeE_z019.+-'/*<>|{};[],:\n \t$é"
CNT = [0]
atexit.register(lambda: sys.stderr.write(f"PATHS={CNT[0]}\n"))
def lexparse(s: str) -> bool:
    """
    pre: len(s) <= 3 and all(c in ALPHA for c in s)
    post: _
    """
    CNT[0] += 1
    try:
        parse_to_sexpression(s)
    except JaqalError:
        return True
    except AttributeError:
        return True
    except LexError:
        return True
    return True
