def _install():
    from crosshair.core import _PATCH_REGISTRATIONS, NoTracing
    from crosshair.libimpl import builtinslib as B
    from crosshair.util import CrossHairValue
    _orig = _PATCH_REGISTRATIONS[int]
    def _int2(*a, **k):
        with NoTracing():
            if len(a) == 1 and not k and isinstance(a[0], B.SymbolicFloat):
                mode = 1
            elif not any(isinstance(v, CrossHairValue) for v in a) and not any(isinstance(v, CrossHairValue) for v in k.values()):
                return int(*a, **k)
            else:
                mode = 0
        if mode == 1:
            return a[0].__int__()
        return _orig(*a, **k)
    _PATCH_REGISTRATIONS[int] = _int2
_install()
