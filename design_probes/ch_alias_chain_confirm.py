from jaqalpaq.core.circuitbuilder import build
from jaqalpaq.error import JaqalError

def viabuild(size: int, start: int, stop: int, step: int, idx: int) -> int:
    """
    pre: 1 <= size <= 8 and step > 0
    pre: 0 <= start <= 9 and 0 <= stop <= 9 and step <= 4 and 0 <= idx <= 9
    post: (_ == start + idx*step and 0 <= _ < size) or _ == -1
    """
    try:
        c = build(["circuit", ["register", "r", size], ["map", "a", "r", start, stop, step],
                   ["gate", "g", ("array_item", "a", idx)]])
        q = list(c.body.statements[0].parameters.values())[0]
        reg, i = q.resolve_qubit()
    except JaqalError:
        return -1
    return i
