from jaqalpaq.core.parameter import Parameter, ParamType
from jaqalpaq.core.circuitbuilder import as_integer
from jaqalpaq.error import JaqalError
import math
def val_int(x: float) -> bool:
    """
    pre: math.isfinite(x)
    post: _ == (x == math.floor(x))
    """
    p = Parameter("p", ParamType.INT)
    try:
        p.validate(x)
    except JaqalError:
        return False
    return True

def asint(x: float) -> bool:
    """
    pre: math.isfinite(x)
    post: _
    """
    v = as_integer(x)
    if x == math.floor(x):
        return isinstance(v, int) and v == x
    return isinstance(v, float) and v == x
