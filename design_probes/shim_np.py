"""Minimal numpy shim: vectors of polynomials over opaque matrix-entry symbols."""
from collections import Counter
class Poly:
    """sum of monomials; monomial = sorted tuple of symbol names; coefficients ints."""
    def __init__(self, terms=None):
        self.t = Counter(terms or {})
    @staticmethod
    def const(c):
        return Poly({(): c}) if c else Poly()
    def __add__(self, o):
        o = as_poly(o); r = Counter(self.t); r.update(o.t); return Poly({k: v for k, v in r.items() if v})
    __radd__ = __add__
    def __mul__(self, o):
        o = as_poly(o); r = Counter()
        for a, x in self.t.items():
            for b, y in o.t.items():
                r[tuple(sorted(a + b))] += x * y
        return Poly({k: v for k, v in r.items() if v})
    __rmul__ = __mul__
    def __eq__(self, o): return self.t == as_poly(o).t
    def __repr__(self): return " + ".join(f"{v}*{'.'.join(k) or '1'}" for k, v in sorted(self.t.items())) or "0"
def as_poly(x): return x if isinstance(x, Poly) else Poly.const(x)
class Vec:
    def __init__(self, n, fill=0): self.v = [as_poly(fill) for _ in range(n)]
    def __getitem__(self, i): return self.v[i]
    def __setitem__(self, i, x):
        if isinstance(i, slice): self.v = [as_poly(x) for _ in self.v]
        else: self.v[i] = as_poly(x)
    def __len__(self): return len(self.v)
    def __pow__(self, k): return self
class Mat:
    def __init__(self, name, dim): self.name = name; self.shape = (dim, dim)
    def __getitem__(self, rc): r, c = rc; return Poly({(f"{self.name}[{r},{c}]",): 1})
class _NP:
    complex = complex
    def empty(self, n, dtype=None): return Vec(n)
    def zeros(self, n, dtype=None): return Vec(n)
    def abs(self, v): return v
numpy = _NP()
