import atexit, sys
from jaqalpaq.qsyntax import circuit
from jaqalpaq.core.circuitbuilder import build, CircuitBuilder
from jaqalpaq.parser import parse_jaqal_string
from jaqalpaq.error import JaqalError
CNT = [0]
atexit.register(lambda: sys.stderr.write(f"PATHS={CNT[0]}\n"))
NAMES = ["__r0", "__c0", "a", None]
def three(n: int, k: int, size: int, nm: int, par: bool) -> str:
    """
    pre: 1 <= size <= 3 and 0 <= n <= 3 and 0 <= k <= 2 and 0 <= nm < 4
    post: _ == ""
    """
    CNT[0] += 1
    lname = NAMES[nm]
    @circuit
    def prog(Q):
        c = Q.let(n, lname)
        r = Q.register(size)
        with Q.loop(k):
            if par:
                with Q.parallel():
                    Q.g(r[c])
            else:
                Q.g(r[c]); Q.h(c)
    try:
        c1 = prog()
    except JaqalError as e:
        return "" if n >= size else f"q rejected {e}"
    ln = lname or "__c0"
    rn = "__r0" if lname != "__r0" else "__r1"
    body = f"< g {rn}[{ln}] >" if par else f"g {rn}[{ln}]; h {ln}"
    text = f"let {ln} {n}\nregister {rn}[{size}]\nprepare_all\nloop {k} {{ {body} }}\nmeasure_all\n"
    c2 = parse_jaqal_string(text, autoload_pulses=False)
    return "" if c1 == c2 else "differ " + text
