import re, time, z3
import re._parser as sp
from re._constants import *
from jaqalpaq.parser.slyparse import JaqalLexer

def cls(items):
    parts = []; neg = False
    for op, av in items:
        if op is NEGATE: neg = True
        elif op is LITERAL: parts.append(z3.Re(z3.StringVal(chr(av))))
        elif op is RANGE: parts.append(z3.Range(chr(av[0]), chr(av[1])))
        elif op is CATEGORY:
            if av is CATEGORY_DIGIT: parts.append(z3.Range('0','9'))
            else: raise NotImplementedError(av)
        else: raise NotImplementedError(op)
    u = parts[0] if len(parts)==1 else z3.Union(*parts)
    if neg:
        anychar = z3.AllChar(z3.ReSort(z3.StringSort()))
        return z3.Intersect(anychar, z3.Complement(u))
    return u

def tr(p):
    res = []
    for op, av in p:
        if op is LITERAL: res.append(z3.Re(z3.StringVal(chr(av))))
        elif op is NOT_LITERAL:
            res.append(z3.Intersect(z3.AllChar(z3.ReSort(z3.StringSort())), z3.Complement(z3.Re(z3.StringVal(chr(av))))))
        elif op is IN: res.append(cls(av))
        elif op is ANY: res.append(z3.Intersect(z3.AllChar(z3.ReSort(z3.StringSort())), z3.Complement(z3.Re(z3.StringVal("\n")))))
        elif op is SUBPATTERN: res.append(tr(av[3]))
        elif op is BRANCH: res.append(z3.Union(*[tr(x) for x in av[1]]))
        elif op in (MAX_REPEAT, MIN_REPEAT):
            lo, hi, sub = av; r = tr(sub)
            if hi is MAXREPEAT:
                res.append(z3.Star(r) if lo==0 else (z3.Plus(r) if lo==1 else z3.Concat(*([r]*lo+[z3.Star(r)]))))
            elif (lo,hi)==(0,1): res.append(z3.Option(r))
            else: res.append(z3.Loop(r, lo, hi))
        else: raise NotImplementedError(op)
    if not res: return z3.Re(z3.StringVal(""))
    return res[0] if len(res)==1 else z3.Concat(*res)

def rx(pat): return tr(sp.parse(pat))
rules = {}
for n, p in JaqalLexer._rules:
    rules[n] = p if isinstance(p, str) else p.pattern
print(rules)
NUMBER = rx(rules['NUMBER']); INT = rx(rules['INT']); IDENT = rx(rules['IDENTIFIER']); MLC = rx(rules['ignore_multiline_comment'])
D = z3.Range('0','9'); D19 = z3.Range('1','9')
def S(x): return z3.Re(z3.StringVal(x))
# CPython repr(float) for finite floats (float_repr_style short): 
#   fixed: -?digits '.' digits ; exp: -?d('.'digits)? 'e' [+-] dd+
intpart = z3.Union(S("0"), z3.Concat(D19, z3.Star(D)))
fixed = z3.Concat(z3.Option(S("-")), intpart, S("."), z3.Plus(D))
expo = z3.Concat(z3.Option(S("-")), D, z3.Option(z3.Concat(S("."), z3.Plus(D))), S("e"), z3.Union(S("+"),S("-")), D, z3.Plus(D))
FLOATREPR = z3.Union(fixed, expo)
s = z3.String('s')
def q(name, *cs):
    sol = z3.Solver(); sol.add(*cs); t0=time.time(); r = sol.check()
    print(name, r, round(time.time()-t0,3), sol.model()[s] if str(r)=='sat' else '')
q("floatrepr not NUMBER", z3.InRe(s, FLOATREPR), z3.Not(z3.InRe(s, NUMBER)), z3.Length(s) <= 12)
q("floatrepr(fixed) not NUMBER", z3.InRe(s, fixed), z3.Not(z3.InRe(s, NUMBER)))
INTREPR = z3.Concat(z3.Option(S("-")), intpart)
q("intrepr not INT", z3.InRe(s, INTREPR), z3.Not(z3.InRe(s, INT)))
q("intrepr in NUMBER (ambiguity)", z3.InRe(s, INTREPR), z3.InRe(s, NUMBER))
# comment: matched string containing */ before the end
q("greedy comment", z3.InRe(s, MLC), z3.Contains(z3.SubString(s, 2, z3.Length(s)-3), z3.StringVal("*/")), z3.Length(s) <= 10)
