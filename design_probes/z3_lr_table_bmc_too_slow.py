import sys, time, z3
from jaqalpaq.parser.slyparse import JaqalParser
t = JaqalParser._lrtable; g = JaqalParser._grammar
terms = [x for x in g.Terminals if x != 'error'] + ['$end']
tid = {x:i for i,x in enumerate(terms)}
nts = list(g.Nonterminals); nid = {x:i for i,x in enumerate(nts)}
NS = len(t.lr_action)
prods = g.Productions
# ACTION as z3 function via nested ITE built from table: encode action as int: 0=error, >0 shift to state s => s (state 0 never target), <0 reduce prod p => -p ; accept => special 10000
def action_expr(state, tok):
    # state, tok are z3 Ints
    e = z3.IntVal(0)
    for s, row in t.lr_action.items():
        for tk, a in row.items():
            if tk not in tid: continue
            val = 10000 if (a == 0) else a
            e = z3.If(z3.And(state == s, tok == tid[tk]), z3.IntVal(val), e)
    return e
# Use z3 Function with table constraints instead (faster): define as arrays
N = int(sys.argv[1]); K = int(sys.argv[2]); D = int(sys.argv[3])
s = z3.Solver()
ACT = z3.Function('ACT', z3.IntSort(), z3.IntSort(), z3.IntSort())
GOTO = z3.Function('GOTO', z3.IntSort(), z3.IntSort(), z3.IntSort())
PLEN = z3.Function('PLEN', z3.IntSort(), z3.IntSort())
PLHS = z3.Function('PLHS', z3.IntSort(), z3.IntSort())
for st in range(NS):
    row = t.lr_action.get(st, {})
    for tk in terms:
        a = row.get(tk)
        val = 0 if a is None else (10000 if a == 0 else a)
        s.add(ACT(st, tid[tk]) == val)
    grow = t.lr_goto.get(st, {})
    for nt in nts:
        s.add(GOTO(st, nid[nt]) == grow.get(nt, -1))
for p in prods:
    s.add(PLEN(p.number) == p.len)
    s.add(PLHS(p.number) == (nid[p.name] if p.name in nid else -1))
toks = [z3.Int(f"t{i}") for i in range(N)]
for x in toks: s.add(0 <= x, x < len(terms)-1)
def tok_at(pos):
    e = z3.IntVal(tid['$end'])
    for i in reversed(range(N)):
        e = z3.If(pos == i, toks[i], e)
    return e
# state: stack array (list of z3 ints of depth D), sp, pos, status (0 running,1 accept,2 error)
stack = [z3.IntVal(0)] + [z3.IntVal(-1)]*(D-1)
sp = z3.IntVal(0); pos = z3.IntVal(0); status = z3.IntVal(0)
def sel(lst, idx):
    e = lst[-1]
    for i in reversed(range(len(lst)-1)):
        e = z3.If(idx == i, lst[i], e)
    return e
overflow = z3.BoolVal(False)
for step in range(K):
    top = sel(stack, sp)
    la = tok_at(pos)
    a = ACT(top, la)
    run = status == 0
    is_shift = z3.And(run, a > 0, a < 10000)
    is_red = z3.And(run, a < 0)
    is_acc = z3.And(run, a == 10000)
    is_err = z3.And(run, a == 0)
    p = -a
    nsp_red = sp - PLEN(p)
    below = sel(stack, nsp_red)
    gt = GOTO(below, PLHS(p))
    new_sp = z3.If(is_shift, sp+1, z3.If(is_red, nsp_red+1, sp))
    pushed = z3.If(is_shift, a, gt)
    overflow = z3.Or(overflow, z3.And(z3.Or(is_shift,is_red), new_sp >= D))
    fresh = [z3.Int(f"s{step}_{i}") for i in range(D)]
    for i in range(D):
        s.add(fresh[i] == z3.If(z3.And(z3.Or(is_shift,is_red), new_sp == i), pushed, stack[i]))
    stack = fresh
    nsp = z3.Int(f"sp{step}"); s.add(nsp == new_sp); sp = nsp
    npos = z3.Int(f"pos{step}"); s.add(npos == z3.If(is_shift, pos+1, pos)); pos = npos
    nst = z3.Int(f"st{step}"); s.add(nst == z3.If(is_acc, 1, z3.If(is_err, 2, status))); status = nst
t0=time.time()
s.push(); s.add(status == 0); r = s.check(); print("still running after K possible?", r, time.time()-t0); 
if str(r)=='sat':
    m = s.model(); print([terms[m[x].as_long()] for x in toks])
s.pop()
t0=time.time()
s.push(); s.add(overflow); r = s.check(); print("overflow possible?", r, time.time()-t0); s.pop()
t0=time.time()
s.push(); s.add(status == 1, toks[N-1] == tid['>']); r = s.check(); print("accepted ending with '>'", r, time.time()-t0)
if str(r)=='sat':
    m = s.model(); print([terms[m[x].as_long()] for x in toks])
s.pop()
