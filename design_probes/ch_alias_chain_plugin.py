import atexit, sys
from jaqalpaq.core.register import Register, NamedQubit
from jaqalpaq.error import JaqalError
CNT = [0]
atexit.register(lambda: sys.stderr.write(f"PATHS={CNT[0]}\n"))
def chain(size: int, start: int, stop: int, step: int, idx: int) -> bool:
    """
    pre: 1 <= size <= 30 and step > 0
    pre: 0 <= start <= 30 and 0 <= stop <= 30 and step <= 4 and 0 <= idx <= 30
    post: _
    """
    CNT[0] += 1
    r = Register("r", size)
    try:
        a = Register("a", alias_from=r, alias_slice=slice(start, stop, step))
        q = a[idx]
        reg, i = q.resolve_qubit()
    except JaqalError:
        return True
    return i == start + idx * step and 0 <= i < size
