import atexit, sys
import shim_np
from shim_np import Mat, Poly, Vec
import jaqalpaq.emulator.unitary as U
from jaqalpaq.core import GateDefinition, Parameter, ParamType, circuitbuilder
from jaqalpaq.core.gatedef import BusyGateDefinition
from jaqalpaq.core.circuitbuilder import build
from jaqalpaq.core.algorithm import expand_macros, fill_in_let, expand_subcircuits
from jaqalpaq.core.algorithm.walkers import DiscoverSubcircuits
from jaqalpaq.error import JaqalError
CNT = [0]
atexit.register(lambda: sys.stderr.write(f"PATHS={CNT[0]}\n"))
U.numpy = shim_np.numpy
class FakeSub:
    def __init__(self, trace, index, probabilities, state_vector): self.state_vector = state_vector
U.EmulatorSubcircuit = FakeSub
CALLS = []
def spy(name, dim):
    def f(*args):
        CALLS.append((name, args)); return Mat(f"{name}#{len(CALLS)}", dim)
    return f
Q = lambda n: Parameter(n, ParamType.QUBIT)
GATES = {g.name: g for g in [
    BusyGateDefinition("prepare_all"), BusyGateDefinition("measure_all"),
    GateDefinition("R", [Q("q"), Parameter("t", ParamType.FLOAT)], ideal_unitary=spy("R", 2)),
    GateDefinition("C", [Q("a"), Q("b")], ideal_unitary=spy("C", 4)),
]}
def ref_apply(vec, mat, qs, n):
    out = [Poly() for _ in range(2 ** n)]
    k = len(qs)
    for i in range(2 ** n):
        row = sum(((i >> q) & 1) << t for t, q in enumerate(qs))
        base = i
        for q in qs: base &= ~(1 << q)
        for c in range(2 ** k):
            j = base
            for t, q in enumerate(qs):
                if (c >> t) & 1: j |= 1 << q
            out[i] = out[i] + vec[j] * mat[row, c]
    return out
def emu(a: int, b: int, c: int, reps: int) -> str:
    """
    pre: 0 <= a < 3 and 0 <= b < 3 and 0 <= c < 3 and a != b and 0 <= reps <= 2
    post: _ == ""
    """
    CNT[0] += 1
    del CALLS[:]
    sexpr = ["circuit", ["register", "r", 3], ["map", "m", "r", 1, 3, 1],
             ["subcircuit_block", "", ["gate", "C", ("array_item", "r", a), ("array_item", "r", b)],
              ["loop", reps, ["sequential_block", ["gate", "R", ("array_item", "r", c), 0.5]]]]]
    circ = build(sexpr, inject_pulses=GATES)
    ex = expand_macros(fill_in_let(expand_subcircuits(circ)))
    traces = DiscoverSubcircuits().visit(ex)
    class Job: circuit = ex
    sub = U.UnitarySerializedEmulator()._make_subcircuit(Job, 0, traces[0])
    got = sub.state_vector.v
    vec = [Poly.const(1)] + [Poly() for _ in range(7)]
    n = 0
    n += 1; vec = ref_apply(vec, Mat(f"C#{n}", 4), [a, b], 3)
    for _ in range(reps):
        n += 1; vec = ref_apply(vec, Mat(f"R#{n}", 2), [c], 3)
    return "" if all(x == y for x, y in zip(got, vec)) else f"state differs {got} vs {vec}"
