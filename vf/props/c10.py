from ..jobs import CH
from ._util import tjobs
from ..spec.templates import ranges
from ..harness.algebra import ORDERS

H = "vf.harness.algebra"
FUNCS = ["expand_subcircuits", "fill_in_let", "expand_macros", "fill_in_map", "parse_jaqal_string (expand_macro/expand_let/expand_let_map)",
         "generate_jaqal_program", "iter_block_statements", "splice_blocks"]
META = {
    "bounds": {"quick": "pass sequences: every ordered selection of 1..4 distinct passes among {expand_subcircuits, fill_in_let, expand_macros, fill_in_map} "
                        "(64 orders; fill_in_map only after fill_in_let), one position applied twice; 6 templates, leaves in 2-value windows, one constant overridden (0..2); "
                        "parser flags: all 8 combinations",
               "thorough": "6 templates, leaves in 3-value windows, overrides on two constants"},
    "assumptions": ["fill_in_map may decline (JaqalError) on circuits whose macros index an alias by a parameter or take an alias as argument (documented limitation)",
                    "re-parse of generated text runs with the tracer suspended (concrete text)"],
    "outside": ["sequences repeating a pass more than twice or non-adjacent repetitions", "unit-timing normalisation (C19)"],
}

GROUPS = {1: (0, 4), 2: (4, 16), 3: (16, 40), 4: (40, 64)}


def _window(t, tier, sym, w):
    """Leaf ranges shrunk to a base value, except the leaves in `sym`, which get a window of w+1 values."""
    shrink = {}
    for n, lo, hi in ranges(t, tier):
        base = max(lo, 0) if lo <= 0 <= hi else lo
        if n == "size":
            base = min(hi, 2)
        if n in ("c", "k"):
            base = min(hi, max(lo, 1))
        shrink[n] = (base, min(hi, base + (w if n in sym else 0)))
    return shrink


SYM = {"t_macro_sub": ["i", "k"], "t_alias_macro": ["a", "i"], "t_loop_sub": ["k", "c"], "t_slice_let": ["a", "i"], "t_shadow": ["v", "i"],
       "t_regsize_let": ["n", "i"], "t_macro_nested": ["i", "j"], "t_macro_twice": ["i", "j"], "t_macro_single": ["i", "k"], "t_shadow_reg": ["a", "i"]}


def jobs(tier):
    q = tier == "quick"
    out = []
    temps = ["t_macro_sub", "t_alias_macro", "t_macro_nested", "t_macro_twice", "t_macro_single", "t_shadow_reg"] if q else list(SYM)
    for t in temps:
        shrink = _window(t, tier, SYM[t][:1] if q else SYM[t], 1)
        step = 4 if q else 2
        for lo in range(0, len(ORDERS), step):
            hi = min(len(ORDERS), lo + step)
            # fill_in_map is only applicable after let substitution: skip chunks without any applicable order
            if not any(all(("L" in o[:n]) for n, p_ in enumerate(o) if p_ == "A") for o in ORDERS[lo:hi]):
                continue
            out.extend(tjobs(f"{H}:c10_order", t, tier, shrink=shrink, fixed=dict({"mask": 1, "o1": 0}, **({"o0": 1} if q else {})),
                             extra_params=[("order", "int"), ("twice", "int")] + ([] if q else [("o0", "int")]),
                             extra_pre=[f"{lo} <= order < {hi}", "0 <= twice < 2"] + ([] if q else ["0 <= o0 <= 1"]),
                             name=f"c10_order_{t}_{lo}", base="c10_order", functions=FUNCS, timeout=400 if q else 1800,
                             note=f"{t}: pass sequences ORDERS[{lo}:{hi}], one position applied twice (idempotence), override of the first constant; "
                                  "oracle: meaning == reference (subcircuits expanded iff expand_subcircuits applied), result generates and re-parses to the same meaning"))
        for flags in range(8):
            if flags >= 4 and t in ("t_alias_macro", "t_macro_reg", "t_macro_twice", "t_shadow_reg"):
                continue        # fill_in_map declines macros that index an alias by a parameter: nothing to compare
            out.extend(tjobs(f"{H}:c10_flags", t, tier, shrink=shrink, fixed={"flags": flags, "mask": 1, "o1": 0},
                             extra_params=[("o0", "int")], extra_pre=["0 <= o0 <= 1" if q else "0 <= o0 <= 2"], functions=FUNCS, timeout=300,
                             note=f"{t}: parse_jaqal_string with flags expand_macro={bool(flags & 1)}, expand_let={bool(flags & 2)}, expand_let_map={bool(flags & 4)} "
                                  "equals the explicit passes applied to the plain parse (same acceptance, equal circuits)"))
    # templates without macros so that expand_let_map is really exercised
    for t in ["t_slice_let", "t_regsize_let"]:
        shrink = {"t_slice_let": {"size": (3, 3), "a": (0, 1), "b": (2, 3), "i": (0, 1)}, "t_regsize_let": {"n": (2, 3), "i": (0, 2), "b": (1, 2)}}[t]
        for flags in (2, 4, 6, 7):
            out.extend(tjobs(f"{H}:c10_flags", t, tier, shrink=shrink, fixed={"flags": flags, "mask": 1, "o1": 0},
                             extra_params=[("o0", "int")], extra_pre=["0 <= o0 <= 2"], functions=FUNCS, timeout=300, name=f"c10_flags_nomacro_{t}_{flags}", base="c10_flags",
                             note=f"{t}: parser flags {flags} vs explicit passes"))
    return out
