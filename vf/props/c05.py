from ._util import tjobs, window
from ..spec.templates import WITH_LETS

H = "vf.harness.passes"
FUNCS = ["fill_in_let", "LetFiller.visit_*", "RegisterVisitor.visit_NamedQubit", "LetFiller.resolve_constant", "circuitbuilder.build",
         "Register.__init__", "NamedQubit.__init__", "as_integer"]
META = {
    "bounds": {"quick": "templates with let constants, quick leaf ranges; override subsets (mask) over the first 3 constants; override values -1..3",
               "thorough": "thorough leaf ranges; override values -2..5 and the float grid"},
    "assumptions": ["reference meaning evaluates each constant as override-else-declared value (vf/spec/ref.py)"],
    "outside": ["override keys that are not declared constants", "more than 3 constants"],
}


def jobs(tier):
    q = tier == "quick"
    out = []
    olo, ohi = (0, 2) if q else (-1, 3)
    # which leaves keep their full range in the quick tier (the ones that interact with the overridden constants)
    WIDE = {"t_index": ["i"], "t_slice_let": ["b"], "t_regsize_let": ["i"], "t_loop_sub": ["c"], "t_shadow": ["i"],
            "t_alias_macro": ["i"], "t_macro_sub": [], "t_let_arg": ["v"], "t_float": []}
    for t in WITH_LETS:
        shrink = window(t, tier, 1, WIDE.get(t, ())) if q else None
        for mask in ((1, 3) if q else (1, 2, 3, 7)):
            ep = [("o0", "int")] if mask else []
            pre = [f"{olo} <= o0 <= {ohi}"] if mask else []
            fx = {"pulses": True, "mask": mask, "fo": -1, "o1": 1}
            if not mask:
                fx["o0"] = 0
            out.extend(tjobs(f"{H}:c05_letfill", t, tier, fixed=fx, extra_params=ep, extra_pre=pre, functions=FUNCS, timeout=400 if q else 2400, shrink=shrink if q else window(t, tier, 2, WIDE.get(t, ())),
                             note=f"{t}: fill_in_let with overrides on constant subset mask={mask}; oracle: no Constant left in any position, "
                                  "impl_meaning(out, {}) == ref_meaning(program, overrides), declarations/macros/native gates/usepulses preserved"))
        # float override of the first constant
        if t == "t_slice_let":
            continue        # its first constant is an alias bound: every float override invalidates the alias (vacuous)
        pure_numeric = t in ("t_let_arg", "t_float")      # the first constant is never an index/bound/count
        for fo in (((0, 2) if pure_numeric else (2,)) if q else ((0, 1, 2, 3, 4, 5) if pure_numeric else (2, 3, 8, 12))):
            out.extend(tjobs(f"{H}:c05_letfill", t, tier, fixed={"pulses": False, "mask": 1, "fo": fo, "o0": 0, "o1": 0}, functions=FUNCS, timeout=400 if q else 2400,
                             shrink=window(t, tier, 1), note=f"{t}: first constant overridden by float grid value #{fo}"))
    return out
