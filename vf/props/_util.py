from ..jobs import CH
from ..spec.templates import T, ranges


def tjobs(prop_func, tname, tier, fixed=None, name=None, timeout=150, note="", functions=(), extra_params=(), extra_pre=(),
          base=None, shrink=None, shard=None):
    """CrossHair jobs running harness `prop_func` on template `tname` with its leaves symbolic.
    Leaves named in `shard` (and every leaf whose name starts with 'x': an index into the float grid)
    are not symbolic but enumerated, one job per value."""
    rs = ranges(tname, tier)
    if shrink:
        rs = [(n, max(lo, shrink.get(n, (lo, hi))[0]), min(hi, shrink.get(n, (lo, hi))[1])) for n, lo, hi in rs]
    shard = set(shard or ()) | {n for n, _, _ in rs if n.startswith("x")}
    sym = [(n, lo, hi) for n, lo, hi in rs if n not in shard]
    shards = [{}]
    for n, lo, hi in rs:
        if n in shard:
            shards = [dict(s, **{n: v}) for s in shards for v in range(lo, hi + 1)]
    out = []
    fn = prop_func.split(":")[1]
    for sh in shards:
        params = [(n, "int") for n, _, _ in sym] + list(extra_params)
        pre = [f"{lo} <= {n} <= {hi}" for n, lo, hi in sym] + list(extra_pre)
        fx = {"tname": tname}
        fx.update(fixed or {})
        fx.update(sh)
        suffix = "".join(f"_{k}{v}" for k, v in list((fixed or {}).items()) + list(sh.items()))
        out.append(CH(name=(name or f"{fn}_{tname}") + (suffix if not name else "".join(f"_{k}{v}" for k, v in sh.items())),
                      func=prop_func, params=params, pre=pre, fixed=fx, timeout=timeout,
                      note=note or f"template {tname}: leaves {[n for n, _, _ in sym]} symbolic", functions=list(functions), base=base or fn))
    return out


def window(tname, tier, width=1, wide=()):
    """shrink dictionary: every leaf of the template restricted to [base, base+width] where base is 0 (or the
    lower end of its range if that is positive; 2 for 'size'); leaves named in `wide` keep their full range."""
    out = {}
    for n, lo, hi in ranges(tname, tier):
        if n in wide:
            continue
        base = max(lo, 0) if lo <= 0 <= hi else lo
        if n == "size":
            base = min(hi, 2)
        out[n] = (base, min(hi, base + width))
    return out
