from ..jobs import CH
from ..harness.strings import SEMANTIC, POOL, TRICKY

H = "vf.harness.strings"
CTX = [("", ""), ("{g;", "}"), ("<g|", ">"), ("map a r[", "]"), ("loop ", " {}"), ("/*", "*/g"), ("g ", "//x"), ("let x ", ""), ("register r[2]\n", ""),
       ("macro m ", " {}"), ("subcircuit ", "{g}"), ("g r[", "]"), ("branch {", "}"), ("from ", " usepulses *"), ("'", "'"), ("g 1.", "")]
META = {
    "bounds": {"quick": "every character string of length <= 2 (whole Unicode alphabet, symbolic) through parse_to_sexpression and of length <= 1 through parse_jaqal_string; holes of <= 1 "
                        "symbolic character in 9 contexts; 18 programs with one semantic error, their integer literal symbolic (-2..4), through 3 entry points; "
                        "history: a symbolic string of length <= 1 before/after each of 10 pool programs",
               "thorough": "holes of <= 2 symbolic characters in 16 contexts; history strings of length <= 2"},
    "assumptions": ["CrossHair's symbolic str ranges over all Unicode code points", "termination: CrossHair's per-path timeout (30 s) would report a hang as 'not confirmed'"],
    "outside": ["strings longer than the bounds at character level", "relative usepulses depending on whether importlib.util is already imported, and file-system "
                "state of pulse modules (no input for a solver to range over)", "unbounded termination"],
}


def jobs(tier):
    q = tier == "quick"
    out = []
    F = ["JaqalLexer (all rules, error)", "JaqalParser (LALR driver, error, raise_error, compute_col)", "parse_jaqal_string", "parse_to_sexpression", "circuitbuilder.build"]
    for entry in (0, 1):
        out.append(CH(name=f"c16_total_whole_e{entry}", base="c16_total", func=f"{H}:c16_total", params=[("s", "str")],
                      pre=["len(s) <= 2" if (entry == 1 or not q) else "len(s) <= 1"],
                      fixed={"pre": "", "post": "", "entry": entry}, timeout=600 if q else 1800, functions=F,
                      note="all strings of length <= 2: a Circuit, or JaqalError; JaqalParseError carries a position inside the text (a non-blank character) or EOF"))
    n = 1
    for k, (a, b) in enumerate(CTX[:9] if q else CTX):
        out.append(CH(name=f"c16_total_hole{k}", base="c16_total", func=f"{H}:c16_total", params=[("s", "str")], pre=[f"len(s) <= {n}"],
                      fixed={"pre": a, "post": b, "entry": 0}, timeout=900 if q else 3000, functions=F, twin=False,
                      note=f"hole of <= {n} symbolic characters in the context {a!r} _ {b!r}"))
    out.append(CH(name="c16_usepulses_autoload", base="c16_usepulses", func=f"{H}:c16_usepulses", params=[("c0", "int"), ("c1", "int"), ("c2", "int")],
                  pre=["0 <= c0 <= 6", "0 <= c1 <= 6", "0 <= c2 <= 6"], timeout=600, functions=F + ["jaqal_import", "get_jaqal_gates"], twin=False,
                  note="module name of three solver-chosen picks from ['', '.', 'a', '_', '1', 'b', ' '] in 'from _ usepulses *' with pulse autoloading on and an import "
                       "directory without modules: JaqalError or ImportError only"))
    for w in range(len(SEMANTIC)):
        out.append(CH(name=f"c16_semantic_{w}", base="c16_semantic", func=f"{H}:c16_semantic", params=[("v", "int"), ("entry", "int")], pre=["-2 <= v <= 4", "0 <= entry <= 2"],
                      fixed={"which": w}, timeout=600, functions=F + ["run_jaqal_string", "expand_macros", "fill_in_let", "fill_in_map"], twin=False,
                      note=f"program with one semantic error {SEMANTIC[w]!r}: only JaqalError (or ImportError for a missing pulse module) may be raised"))
    for w in range(len(TRICKY)):
        out.append(CH(name=f"c16_tricky_{w}", base="c16_tricky", func=f"{H}:c16_tricky", params=[("entry", "int")], pre=["0 <= entry <= 2"], fixed={"which": w}, timeout=300,
                      twin=False, functions=F + ["as_integer", "generate_jaqal_program"], note=f"unusual concrete text {TRICKY[w][:40]!r}...: result, JaqalError or ImportError only"))
    from ..jobs import SMT
    out.append(SMT(name="lex_token_actions", func="vf.smt.lexer:q_token_actions", timeout=600, functions=["JaqalLexer.INT", "JaqalLexer.NUMBER", "JaqalLexer.BININT"],
                   note="E2: for token texts of any length, the int()/float() conversion in each token action either cannot raise on its token language "
                        "(CPython contract incl. the integer digit limit) or is guarded by a handler raising JaqalParseError"))
    for sel in range(len(POOL)):
        for order in ((0, 1) if (not q or sel < 3) else (0,)):
            out.append(CH(name=f"c16_history_{sel}_{order}", base="c16_history", func=f"{H}:c16_history", params=[("s", "str")], pre=[f"len(s) <= {n}"],
                          fixed={"sel": sel, "order": order}, timeout=900 if q else 3000, functions=F + ["_monkeypatch_sly"],
                          note="outcome (circuit repr or error message) of a text is the same before and after processing another, possibly failing, text"))
    return out
