from ..jobs import CH

H = "vf.harness.frontends"
META = {
    "bounds": {"quick": "8 nesting shapes (alternating sequential/parallel to depth 4, empty blocks (also leading / in the middle of parallel branches), subcircuit block, loops at sequential level, loop inside parallel), "
                        "four branch lengths 0..3 symbolic",
               "thorough": "branch lengths 0..4"},
    "assumptions": ["unit-time schedule: gate = 1 step, loops and subcircuit blocks are opaque units whose inner schedule is compared recursively",
                    "enumeration-equivalent: the content is structural"],
    "outside": ["shapes outside the 7 skeletons"],
}


def jobs(tier):
    q = tier == "quick"
    m = 3 if q else 4
    out = []
    for shape in range(8):
        for l0 in range(m + 1):
            out.append(CH(name=f"c19_timing_s{shape}_l{l0}", base="c19_timing", func=f"{H}:c19_timing", params=[("l1", "int"), ("l2", "int"), ("l3", "int")],
                          pre=[f"0 <= l1 <= {m}", f"0 <= l2 <= {m}", f"0 <= l3 <= {m}"], fixed={"shape": shape, "l0": l0}, timeout=600 if q else 2400,
                          functions=["normalize_blocks_with_unitary_timing", "BlockNormalizer.visit_BlockStatement", "BlockNormalizer.iter_chunk_blocks", "UnrollIterator.visit_*"],
                          note="output body flat; multiset of (time step, gate) unchanged; header data, usepulses and subcircuit annotation preserved; loop in parallel => JaqalError"))
    return out
