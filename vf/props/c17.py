from ..jobs import CH

H = "vf.harness.frontends"
META = {
    "bounds": {"quick": "10 program shapes (lets, register sized by literal or let, gates with numeric and qubit arguments, nested blocks, loops and subcircuits with "
                        "literal or let counts, bodies beginning or not with prepare/subcircuit, empty body); user names of both lets and the register drawn from "
                        "{anonymous, __r0, __r1, __c0, __c1, a, __c2}; size 1..2, let value 0..2, loop count 0..2, 2 float values",
               "thorough": "size 1..3, 4 float values"},
    "assumptions": ["the text and builder renderings use the names Q-syntax actually chose, so equality is judged on circuits with identical names"],
    "outside": ["usepulses through Q-syntax (needs importable pulse modules)", "branch/case"],
}


def jobs(tier):
    q = tier == "quick"
    out = []
    for shape in range(10):
        for nr in ((0, 1, 3) if q else (0, 1, 3, 5)):
            for n3 in ((0, 4) if q else (0, 1, 4, 6)):
                out.append(CH(name=f"c17_three_s{shape}_r{nr}_c{n3}", base="c17_three", func=f"{H}:c17_three",
                              params=[("n1", "int"), ("n2", "int"), ("size", "int"), ("v", "int"), ("k", "int")],
                              pre=["0 <= n1 < 7", "0 <= n2 < 7", "1 <= size <= 2", "0 <= v <= 2", "0 <= k <= 2"] + (["size == 2", "v == 1", "k <= 1", "n2 == 0 or n2 == 4"] if q else ["size == 2", "v == 1"]),
                              fixed={"shape": shape, "nr": nr, "n3": n3, "x": 0 if q else (shape % 4)}, timeout=600 if q else 2400,
                              functions=["qsyntax.circuit", "circuit_from_stack", "Namer.name_let", "Namer.name_register", "Namer._choose_name", "QBlock.build",
                                         "QGateCall.build", "starts_with_prepare", "CircuitBuilder.*", "parse_jaqal_string"],
                              note="Q-syntax circuit == parsed text == CircuitBuilder circuit (same names); implicit prepare/measure exactly when the body does not begin "
                                   "with prepare or a subcircuit; auto-generated names differ from all user names of both kinds (three lets, one register; names solver-chosen)"))
    out.append(CH(name="c17_let_of_let", func=f"{H}:c17_let_of_let", params=[("v", "int")], pre=["-3 <= v <= 3"], timeout=120,
                  functions=["QConstant._validate_normalize_constant"], note="Q.let accepts an existing constant as its value"))
    return out
