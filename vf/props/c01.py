from ..jobs import CH, SMT
from ._util import tjobs
from ..spec.templates import ALL

H = "vf.harness.roundtrip"
FUNCS = ["generate_jaqal_program", "generate_jaqal_value", "notate_slice", "generate_jaqal_map", "generate_jaqal_block", "generate_jaqal_macro",
         "make_item_name", "parse_jaqal_string", "JaqalLexer (NUMBER/INT/IDENTIFIER)", "Builder.build_let", "as_integer", "Builder.build_map", "Circuit.__eq__"]
META = {
    "bounds": {"quick": "all templates, quick leaf ranges, three front ends (S-expression build, parser, CircuitBuilder); float values: 7-point grid; lexer queries (E2) over strings of unbounded length",
               "thorough": "thorough leaf ranges, 14-point float grid"},
    "assumptions": ["the re-parse of the generated text runs with CrossHair's tracer suspended: the text is a concrete string at that point "
                    "(str() of realised values), so the traced run would have a single path",
                    "CPython float repr language (float_repr_style='short') as encoded in vf/smt/lexer.py, validated on boundary floats every run"],
    "outside": ["branch/case statements", "non-finite numbers", "usepulses with a names list"],
}


def jobs(tier):
    q = tier == "quick"
    out = []
    heavy = {"t_slice"}
    for t in ALL:
        for via in ((0, 1) if q else (0, 1, 2)):
            if q and t in heavy and via == 1:
                continue
            out.extend(tjobs(f"{H}:c01_roundtrip", t, tier, fixed={"via": via, "pulses": via == 0}, functions=FUNCS, timeout=240 if q else 900,
                             note=f"{t} built via {'build()' if via == 0 else 'parser' if via == 1 else 'CircuitBuilder'}: "
                                  "parse(generate(c)) == c (both directions), same meaning, generate(parse(generate(c))) == generate(c)"))
    out.append(SMT(name="lex_float_repr", func="vf.smt.lexer:q_float_repr", note="every string the generator can print for a finite float lexes as exactly one NUMBER token", functions=["JaqalLexer.NUMBER", "generate_jaqal_value"]))
    out.append(SMT(name="lex_int_repr", func="vf.smt.lexer:q_int_repr", note="every str(int) lexes as exactly one INT token", functions=["JaqalLexer.INT"]))
    out.append(SMT(name="lex_identifier", func="vf.smt.lexer:q_identifier", note="every legal identifier re-lexes as one IDENTIFIER token and is not remapped to a keyword", functions=["JaqalLexer.IDENTIFIER", "is_identifier_valid"]))
    return out
