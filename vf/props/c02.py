from ..jobs import CH, SMT
from ._util import tjobs
from .c16 import CTX
from ..harness.strings import SEPS, PSEPS, PADS

H = "vf.harness.strings"
META = {
    "bounds": {"quick": "token level (E3): all token strings of length <= 10 over the 27 terminals; lexer level (E2): unbounded strings; character level (E1): all strings "
                        "of length <= 2, holes of 1 character in 9 contexts; layout: 3 templates x 10 separators x 8 parallel separators x 7 paddings",
               "thorough": "E3 length <= 12; E1 differential against the reference tokenizer on strings of length <= 1 and 1-character holes in 6 contexts; 6 templates"},
    "assumptions": ["sly reports no LALR conflicts (checked), so the table-driven parser accepts exactly L(productions)",
                    "reference grammar vf/spec/jaqal_grammar.py and reference tokenizer vf/spec/reflex.py written from the language description",
                    "how '.5' (a number without integer part) is tokenised is not specified by the property and is not claimed"],
    "outside": ["texts longer than the bounds at character level", "the tokenisation of numbers without integer part"],
}


def jobs(tier):
    q = tier == "quick"
    out = []
    F = ["JaqalLexer._rules", "JaqalParser._grammar.Productions", "JaqalParser._lrtable", "parse_to_sexpression", "JaqalParser.error", "JaqalParser.compute_col"]
    out.append(SMT(name="grammar_conflicts", func="vf.smt.grammar:q_conflicts", functions=F[:3], note="LALR table built by sly has no conflicts"))
    out.append(SMT(name="grammar_equiv", func="vf.smt.grammar:q_equiv", kwargs={"N": 10 if q else 12}, timeout=900 if q else 3600, functions=F[:3],
                   note="L(live sly productions) == L(reference grammar) on every token string up to the bound (one CYK query)"))
    out.append(SMT(name="lex_comments", func="vf.smt.lexer:q_comments", functions=F[:1], note="block comments prefix-free and complete; line comments stop at newline; no rule matches ''"))
    out.append(SMT(name="lex_keywords", func="vf.smt.lexer:q_keywords", functions=F[:1], note="exactly the keywords are remapped"))
    out.append(SMT(name="lex_classes", func="vf.smt.lexer:q_classes", functions=F[:1], timeout=600,
                   note="every token class the live lexer produces equals the reference class (identifiers, integers, numbers, dotted identifiers, binary strings, "
                        "newlines), under the ordered first-match model, for strings of unbounded length; literal and ignored characters as specified"))
    from ..harness.strings import TOKCTX
    for ctx in range(len(TOKCTX)):
        out.append(CH(name=f"c02_tokdiff_{ctx}", base="c02_tokdiff", func=f"{H}:c02_tokdiff", params=[("t0", "int"), ("t1", "int"), ("t2", "int")],
                      pre=["0 <= t0 < 8", "0 <= t1 < 8", "0 <= t2 < 8"], fixed={"ctx": ctx}, timeout=600 if q else 1800, functions=F,
                      note=f"three solver-chosen tokens from {{gate, ';', newline, '|', '<', '>', '{{', '}}'}} in the hole of {TOKCTX[ctx][0]!r} _ {TOKCTX[ctx][1]!r}, through "
                           "parse_to_sexpression itself (token-stream handling between lexer and LALR driver included): accepted <=> derivable from the reference grammar; "
                           "texts are concrete once chosen (enumeration-equivalent)"))
    if not q:
        # character-level differential with the reference tokenizer executed symbolically: expensive, thorough tier only
        out.append(CH(name="c02_diff_whole", base="c02_diff", func=f"{H}:c02_diff", params=[("s", "str")], pre=["len(s) <= 1"], fixed={"pre": "", "post": ""},
                      timeout=3000, functions=F, note="all strings of length <= 1: parser accepts <=> reference tokenizer + reference grammar derive it; error position is a token start"))
        for k, (a, b) in enumerate(CTX[:6]):
            out.append(CH(name=f"c02_diff_hole{k}", base="c02_diff", func=f"{H}:c02_diff", params=[("s", "str")], pre=["len(s) <= 1"], fixed={"pre": a, "post": b},
                          timeout=3000, functions=F, note=f"hole of <= 1 symbolic character in {a!r} _ {b!r}"))
    for t in (["t_macro_sub", "t_blocks", "t_alias_macro"] if q else ["t_macro_sub", "t_blocks", "t_alias_macro", "t_loop_sub", "t_macro_nested", "t_slice_let"]):
        from ..spec.templates import ranges
        shrink = {nm: (max(lo, 0) if lo <= 0 <= hi else lo, max(lo, 0) if lo <= 0 <= hi else lo) for nm, lo, hi in ranges(t, tier)}
        shrink["size"] = (2, 2)
        for s1 in range(len(SEPS)):
            out.extend(tjobs(f"{H}:c02_layout", t, tier, shrink=shrink, fixed={"s1": s1}, extra_params=[("s2", "int"), ("p1", "int"), ("p2", "int")],
                             extra_pre=[f"0 <= s2 < {len(PSEPS)}", f"0 <= p1 < {len(PADS)}", f"0 <= p2 < {len(PADS)}"], functions=F, timeout=600,
                             note=f"{t} rendered with sequential separator {SEPS[s1]!r} and solver-chosen parallel separator / padding / comments: same statement tree"))
    from ..harness.strings import COMMENTS, BADTOK, ERRBASE
    from ..spec import reflex
    from ..harness.strings import ERRSTRIDE
    ntok = (len(reflex.tokens(ERRBASE)) + ERRSTRIDE - 1) // ERRSTRIDE
    for cm in range(len(COMMENTS)):
        for bad in range(len(BADTOK)):
            out.append(CH(name=f"c02_errpos_c{cm}_b{bad}", base="c02_errpos", func=f"{H}:c02_errpos", params=[("p1", "int"), ("p2", "int")],
                          pre=[f"0 <= p1 <= {ntok}", f"p1 <= p2 <= {ntok}"], fixed={"cm": cm, "bad": bad}, timeout=600, functions=F + ["JaqalLexer.ignore_comment", "JaqalLexer.ignore_multiline_comment"],
                          note=f"comment {COMMENTS[cm]!r} in front of a solver-chosen token (every 4th token boundary of a 48-token program) and offending token {BADTOK[bad]!r} in front of a later one: same tree / same error "
                               "token as without the comment (line and column shifted by exactly the comment), never before the offending token"))
    return out
