from ..jobs import CH

H = "vf.harness.frontends"
META = {
    "bounds": {"quick": "names of one let, one register, one alias and two macro parameters drawn from a pool of 5 (solver-chosen collisions between "
                        "parameters and header names); statement g X[Y] Z with X, Y, Z any of the five roles; 4 placements of the textually identical statement",
               "thorough": "same space, longer budgets"},
    "assumptions": ["reference = lexical scoping by construction (vf/spec/ref.py): parameter shadows header binding inside the macro body only"],
    "outside": ["more than two macros / two parameters", "names outside the pool"],
}


def jobs(tier):
    q = tier == "quick"
    out = []
    for where in range(4):
        for x in ((1, 2, 3) if q else range(5)):
            pre = ["0 <= l < 5", "0 <= r < 5", "0 <= al < 5", "0 <= p1 < 5", "0 <= p2 < 5", "0 <= y < 5", "0 <= z < 5", "l != r and l != al and r != al", "p1 != p2"]
            if not q:
                pre += ["l == 0", "r == 1", "al == 2", "y != 2", "z != 2"]
            if q:
                # header names fixed (a, b, c); the solver chooses the parameter names (collisions with any of them, or a
                # free name) and which roles supply the index and the numeric argument
                pre += ["l == 0", "r == 1", "al == 2", "p1 <= 3", "p2 <= 3", "y != 1 and y != 2", "z != 1 and z != 2"]
            out.append(CH(name=f"c07_scope_w{where}_x{x}", base="c07_scope", func=f"{H}:c07_scope",
                          params=[("l", "int"), ("r", "int"), ("al", "int"), ("p1", "int"), ("p2", "int"), ("y", "int"), ("z", "int")],
                          pre=pre, fixed={"where": where, "x": x}, timeout=600 if q else 2400,
                          functions=["Builder.build_gate", "GateMemoizer._make_gate_memo_key", "Builder.build_macro", "rebuild_macro_in_context", "Builder.build_array_item",
                                     "expand_macros", "GateReplacer.visit_NamedQubit", "fill_in_let"],
                          note="impl_meaning(build(program)) == lexical-scoping reference, also after expand_macros and after fill_in_let (rebuild); the main-body "
                               "statement means the same with and without the macros (non-interference); kind errors arising by substitution are JaqalErrors"))
    return out
