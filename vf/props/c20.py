from ..jobs import CH
from ._util import tjobs
from ..spec.templates import ALL, T, ranges
from ..harness.roundtrip import MUTATIONS

H = "vf.harness.roundtrip"
FUNCS = ["Circuit.__eq__", "BlockStatement.__eq__", "LoopStatement.__eq__", "GateStatement.__eq__", "Register.__eq__", "NamedQubit.__eq__",
         "Constant.__eq__", "AnnotatedValue.__eq__", "Macro.__eq__", "AbstractGate.__eq__", "UsePulsesStatement.__eq__"]
META = {
    "bounds": {"quick": "leaf holes: every leaf of every template, both copies' values in the quick range; structural mutants: 9 mutation kinds x first 3 sites; "
                        "core objects: unconstrained symbolic ints and floats",
               "thorough": "thorough leaf ranges, first 5 sites"},
    "assumptions": ["'same meaning' is decided by impl_meaning, 'same declarations' by comparing the header statements of the two programs"],
    "outside": ["pairs of programs that differ in more than one token"],
}


def jobs(tier):
    q = tier == "quick"
    out = []
    for t in ALL:
        for which, lo, hi in ranges(t, tier):
            if which.startswith("x"):
                continue
            out.extend(_leaf_jobs(t, tier, which, lo, hi, q))
    stemps = ["t_macro_sub", "t_blocks", "t_alias_macro", "t_macro_nested", "t_loop_sub"] if q else ALL
    from ..harness.roundtrip import _mutate
    from ..spec.templates import T
    for t in stemps:
        for mut in MUTATIONS:
            probe = T[t](**{n: (min(hi, 2) if n == "size" else max(lo, 0) if lo <= 0 <= hi else lo) for n, lo, hi in ranges(t, "quick")})
            if _mutate(probe, mut, 0) is None:
                continue        # this kind of mutation has no site in this template
            out.extend(tjobs(f"{H}:c20_struct", t, "quick", fixed={"m_kind": mut}, functions=FUNCS, timeout=300 if q else 1200,
                             extra_params=[("m_site", "int")], extra_pre=["0 <= m_site <= 1" if q else "0 <= m_site <= 3"],
                             shrink={n: (lo, min(hi, lo + 1)) for n, lo, hi in ranges(t, "quick")},
                             note=f"{t}: structural mutant {mut} at a solver-chosen site must compare unequal when meaning or macros differ"))
    for extra in (False, True):
        out.append(CH(name=f"c20_gate_float_{'longer' if extra else 'same'}", func=f"{H}:c20_gate_float", params=[("a", "float"), ("b", "float")], pre=[],
                      fixed={"extra": extra}, timeout=120, note="GateStatement equality on unconstrained symbolic floats (incl. NaN, inf)", functions=FUNCS))
    for where in range(3):
        for as_float in (False, True):
            for via in ((0, 1) if not q else (0,) if as_float else (1,)):
                out.append(CH(name=f"c20_twice_w{where}_{'f' if as_float else 'i'}_via{via}", base="c20_twice", func=f"{H}:c20_twice", params=[("a", "int"), ("b", "int")],
                              pre=["-3 <= a <= 3" if q else "-5 <= a <= 5", "-3 <= b <= 3" if q else "-5 <= b <= 5"], fixed={"where": where, "as_float": as_float, "via": via},
                              timeout=200, functions=FUNCS + ["GateMemoizer.build_gate", "GateMemoizer._make_gate_memo_key"],
                              note="the same gate called twice with numbers a and b (main body / loop / macro body): statements carry a and b, and the program "
                                   "equals the one calling it with a twice exactly when a == b"))
    for kind in range(9):
        out.append(CH(name=f"c20_core_int_kind{kind}", func=f"{H}:c20_core_int", params=[("a", "int"), ("b", "int")],
                      pre=["0 <= a <= 19" if kind in (3, 4, 5) else "1 <= a <= 19" if kind in (2, 6) else "True",
                           "0 <= b <= 19" if kind in (3, 4, 5) else "1 <= b <= 19" if kind in (2, 6) else "True"],
                      fixed={"kind": kind}, timeout=120, functions=FUNCS,
                      note="core objects differing in one integer (loop count, subcircuit count, register size, index, slice start/stop/step, constant): equal <=> a == b"))
    return out


def _leaf_jobs(t, tier, which, lo, hi, q):
    from ..jobs import CH
    rs = [(n, l, h) for n, l, h in ranges(t, tier) if n != which]
    sym = [(n, l, h) for n, l, h in rs if not n.startswith("x")]
    fixed = {"tname": t, "which": which}
    for n, l, h in rs:
        if n.startswith("x"):
            fixed[n] = 0
    # the other leaves take a small window of their range (they only provide context for the hole)
    params = [(n, "int") for n, _, _ in sym] + [("va", "int"), ("vb", "int")]
    def base(n, l, h):
        b = max(l, 0) if l <= 0 <= h else l
        return min(h, 2) if n == "size" else (min(h, max(l, 1)) if n in ("c", "k", "b") else b)
    wdt = 0 if q else 1
    pre = [f"{base(n, l, h)} <= {n} <= {min(h, base(n, l, h) + wdt)}" for n, l, h in sym] + [f"{lo} <= va <= {hi}", f"{lo} <= vb <= {hi}"]
    return [CH(name=f"c20_leaf_{t}_{which}", base="c20_leaf", func=f"{H}:c20_leaf", params=params, pre=pre, fixed=fixed, timeout=240 if q else 900,
               functions=FUNCS, note=f"{t}: leaf {which} is a in one copy and b in the other (other leaves in a 2-value window); "
                                     "(c_a == c_b) must agree with equality of declarations and meaning")]
