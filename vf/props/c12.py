from ..jobs import CH
from ..harness.walk import NSLOT

H = "vf.harness.walk"
META = {
    "bounds": {"quick": "skeleton  k0 ; loop n1 { k1 ; loop n2 { k2 } ; k3 } ; k4  with every slot one of 9 fragments (nothing, prepare_all, measure_all, gate, "
                        "subcircuit block, block leaving a section open, single-branch parallel block closing a section, macro with a whole section, macro with a gate); "
                        "loop counts 0..2; slots k0/k4 enumerated as shards, k1..k3 and counts symbolic",
               "thorough": "loop counts 0..3"},
    "assumptions": ["reference automaton transcribed from the statement (vf/harness/walk.py: automaton)"],
    "outside": ["more than two nested loops", "branch/case statements"],
}


def jobs(tier):
    q = tier == "quick"
    nmax = 2 if q else 3
    out = []
    for k0 in range(NSLOT):
        for k4 in range(NSLOT):
            out.append(CH(name=f"c12_bracket_{k0}_{k4}", base="c12_bracket", func=f"{H}:c12_bracket",
                          params=[("k1", "int"), ("k2", "int"), ("k3", "int"), ("n1", "int"), ("n2", "int")],
                          pre=[f"0 <= k1 < {NSLOT}", f"0 <= k2 < {NSLOT}", f"0 <= k3 < {NSLOT}", f"0 <= n1 <= {nmax}", f"0 <= n2 <= {nmax}"],
                          fixed={"k0": k0, "k4": k4}, timeout=600 if q else 2400, twin=True,
                          functions=["DiscoverSubcircuits.visit_GateStatement", "DiscoverSubcircuits.visit_BlockStatement", "DiscoverSubcircuits.visit_Circuit",
                                     "DiscoverSubcircuits.visit_LoopStatement", "expand_subcircuits", "expand_macros"],
                          note="accepted <=> reference automaton accepts; number of subcircuits equal; rejection is a JaqalError"))
    return out
