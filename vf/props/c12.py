from ..jobs import CH
from ..harness.walk import NSLOT

H = "vf.harness.walk"
META = {
    "bounds": {"quick": "skeleton  k0 ; loop n1 { k1 ; loop n2 { k2 } ; k3 } ; k4  with every slot one of 9 fragments (nothing, prepare_all, measure_all, gate, "
                        "subcircuit block, block leaving a section open, single-branch parallel block closing a section, macro with a whole section, macro with a gate); "
                        "16 shards of (k0,k4,k3); k1 in 4 fragments, k2 in all 9, outer loop count 0..2 symbolic, inner count 2; "
                        "backend history: two programs of two fragments (6 kinds) each on one backend object",
               "thorough": "324 shards (all k0, k4; k3 in 4 fragments); k1 in 5 fragments, k2 in all 9, outer loop count 0..2 symbolic, inner count 2"},
    "assumptions": ["reference automaton transcribed from the statement (vf/harness/walk.py: automaton)"],
    "outside": ["more than two nested loops", "branch/case statements"],
}


def jobs(tier):
    q = tier == "quick"
    nmax = 2 if q else 3
    out = []
    if q:
        shards = [(k0, k4, k3) for (k0, k4) in ((0, 0), (1, 2), (1, 0), (5, 2)) for k3 in (0, 1, 2, 4)]
    else:
        shards = [(k0, k4, k3) for k0 in range(NSLOT) for k4 in range(NSLOT) for k3 in (0, 1, 2, 4)]
    for k0, k4, k3 in shards:
        out.append(CH(name=f"c12_bracket_{k0}_{k4}_{k3}", base="c12_bracket", func=f"{H}:c12_bracket",
                      params=[("k1", "int"), ("k2", "int"), ("n1", "int")],
                      pre=["0 <= k1 < 4" if q else "0 <= k1 < 5", f"0 <= k2 < {NSLOT}", "0 <= n1 <= 2"],
                      fixed={"k0": k0, "k4": k4, "k3": k3, "n2": 2}, timeout=600 if q else 1500, twin=True,
                      functions=["DiscoverSubcircuits.visit_GateStatement", "DiscoverSubcircuits.visit_BlockStatement", "DiscoverSubcircuits.visit_Circuit",
                                 "DiscoverSubcircuits.visit_LoopStatement", "TraceSerializer", "expand_subcircuits", "expand_macros"],
                      note="accepted <=> reference automaton accepts; number of subcircuits equal; contents of each subcircuit equal; rejection is a JaqalError"))
    for a0 in ((0, 1, 5) if q else range(6)):
        out.append(CH(name=f"c12_backend_{a0}", base="c12_backend", func=f"{H}:c12_backend", params=[("a1", "int"), ("b0", "int"), ("b1", "int")],
                      pre=["0 <= a1 < 6", "0 <= b0 < 6", "0 <= b1 < 6"], fixed={"a0": a0}, timeout=600 if q else 1500,
                      functions=["run_jaqal_circuit", "IndependentSubcircuitsBackend.__call__", "UnitarySerializedEmulator", "DiscoverSubcircuits.visit_Circuit"],
                      note="two two-fragment programs run one after the other on one backend object: each verdict (accept/reject, subcircuit count) is the reference "
                           "automaton's; histories are selected by the solver and executed natively (enumeration-equivalent)"))
    return out
