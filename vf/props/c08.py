from ..jobs import CH

H = "vf.harness.walk"
FUNCS = ["TraceVisitor.visit_BlockStatement", "TraceVisitor.visit_LoopStatement", "OutputParser.process_trace", "parse_jaqal_output_list",
         "IndependentSubcircuitsEmulatorWalker.process_trace", "DiscoverSubcircuits.visit_*", "ReadoutSubcircuit.accept_readout", "run_jaqal_circuit"]
META = {
    "bounds": {"quick": "5 nesting shapes (sections in nested loops to depth 3, macro-wrapped sections, empty loops), loop counts 0..2 / 0..2 / 0..1 (literal, let-valued and "
                        "overridden), mixed spelling, fixed hardware outputs given as int and as bit string",
               "thorough": "loop counts 0..3, all 8 spellings of the first three sections"},
    "assumptions": ["numpy.random.choice is replaced by a stub that returns an arbitrary index constrained by its documented contract (0 <= k < n, p[k] > 0)",
                    "Visitor.visit is wrapped with a fuel counter (20000 visits); exhausting it is reported as non-termination",
                    "termination is claimed within the fuel bound only"],
    "outside": ["sections that straddle a loop boundary (acceptance of those is C12's subject)", "that numpy.random.choice honours its contract"],
}


def _pre(nmax, q=False):
    return [f"0 <= n1 <= {nmax}", f"0 <= n2 <= {nmax}", f"0 <= n3 <= {1 if q else nmax}"]


def spelling_jobs(tier):
    q = tier == "quick"
    nmax = 2
    out = []
    for shape in range(5):
        for spell in ((21,) if q else (63, 21, 42)):
            for lets in (False, True):
                out.append(CH(name=f"c09_spelling_s{shape}_sp{spell}_{'let' if lets else 'lit'}", base="c09_spelling", func=f"{H}:c09_spelling",
                              params=[("n1", "int"), ("n2", "int"), ("n3", "int")], pre=_pre(nmax, q), fixed={"shape": shape, "spell": spell, "lets": lets},
                              timeout=400 if q else 1500, functions=FUNCS + ["expand_subcircuits", "TraceSerializer"],
                              note="the program with every section written subcircuit{B} and with the sections in `spell` written prepare_all;B;measure_all: "
                                   "same subcircuit count, emulated and parsed visit order, outcomes, probabilities and serialised gates"))
    return out


def jobs(tier):
    q = tier == "quick"
    nmax = 2
    out = []
    for shape in range(5):
        for spell in ((21,) if q else (0, 63, 21)):
            for lets in (False, True):
                out.append(CH(name=f"c08_outputs_s{shape}_sp{spell}_{'let' if lets else 'lit'}", base="c08_outputs", func=f"{H}:c08_outputs",
                              params=[("n1", "int"), ("n2", "int"), ("n3", "int"), ("o0", "int")] + [],
                              pre=_pre(nmax, q) + (["o0 == 3"] if q else ["o0 == 0 or o0 == 3"]),
                              fixed={"shape": shape, "spell": spell, "lets": lets, "ov": False, "o1": 1, "o2": 2},
                              timeout=400 if q else 1500, functions=FUNCS,
                              note="parse_jaqal_output_list: one readout per visit of the unrolled program, in order, attributed by flat index; "
                                   "as_int/as_str as supplied; per-subcircuit readouts and relative frequencies count its own readouts"))
                if lets and spell == 21:
                    out.append(CH(name=f"c08_outputs_s{shape}_override", base="c08_outputs", func=f"{H}:c08_outputs",
                                  params=[("n1", "int"), ("n2", "int"), ("n3", "int")], pre=_pre(nmax, q),
                                  fixed={"shape": shape, "spell": spell, "lets": True, "ov": True, "o0": 1, "o1": 2, "o2": 0}, timeout=400 if q else 1500, functions=FUNCS + ["fill_in_let"],
                                  note="loop counts are lets declared with other values and overridden through fill_in_let: visits follow the overriding counts"))
                out.append(CH(name=f"c08_emulate_s{shape}_sp{spell}_{'let' if lets else 'lit'}", base="c08_emulate", func=f"{H}:c08_emulate",
                              params=[("n1", "int"), ("n2", "int"), ("n3", "int"), ("p0", "int")] + [],
                              pre=_pre(nmax, q) + (["p0 == 2"] if q else ["p0 == 1 or p0 == 2"]),
                              fixed={"shape": shape, "spell": spell, "lets": lets, "p1": 3},
                              timeout=400 if q else 1500, functions=FUNCS,
                              note="run_jaqal_circuit with numpy.random.choice stubbed: terminates within fuel, one readout per visit in order, every sample has "
                                   "non-zero probability in the distribution of the subcircuit it is attributed to"))
    return out
