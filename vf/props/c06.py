from ..jobs import CH
from ._util import tjobs
from ..spec.templates import WITH_MAPS

H = "vf.harness.passes"
FUNCS = ["Register.resolve_qubit", "NamedQubit.resolve_qubit", "Register.resolve_size", "fill_in_map", "MapFiller.visit_*",
         "get_used_qubit_indices", "UsedQubitIndicesVisitor.visit_*", "fill_in_let", "expand_macros"]
META = {
    "bounds": {"quick": "core objects: chains of depth <= 3, size 1..8, bounds 0..9, step 1..3; pipeline: alias templates, quick leaf ranges",
               "thorough": "core objects: size 1..12, bounds 0..13, step 1..4; pipeline: thorough leaf ranges"},
    "assumptions": ["element i of src[start:stop:step] is element start+i*step of src (statement); negative/zero steps belong to C14"],
    "outside": ["alias chains deeper than 3", "pyGSTi consumer (covered separately if importable)"],
}


def jobs(tier):
    q = tier == "quick"
    smax, vmax, stmax = (8, 9, 3) if q else (12, 13, 4)
    out = []
    # core objects, everything symbolic
    for kinds in (("s", "w", "ss", "sw", "ws", "sq", "wq") if q else ("s", "w", "ss", "sw", "ws", "sq", "wq", "ssq", "sss")):
        n = sum(1 for k in kinds if k == "s")
        for lazy in (False, True):
            if lazy and n == 0:
                continue
            if n == 1:
                sm, vm, st = smax, vmax, stmax
            elif n == 2:
                sm, vm, st = (4, 4, 2) if q else (5, 5, 2)
            else:
                sm, vm, st = (3, 3, 1) if q else (3, 4, 2)
            params = [("size", "int"), ("idx", "int")]
            pre = [f"1 <= size <= {sm}", f"0 <= idx <= {vm}"]
            for k in range(n):
                params += [(f"a{k}", "int"), (f"b{k}", "int"), (f"c{k}", "int")]
                pre += [f"0 <= a{k} <= {vm}", f"0 <= b{k} <= {vm}", f"1 <= c{k} <= {st}"]
            fixed = {"kinds": kinds, "lazy": lazy}
            for k in range(n, 3):
                fixed.update({f"a{k}": 0, f"b{k}": 0, f"c{k}": 1})
            out.append(CH(name=f"chain_core_{kinds}{'_let' if lazy else ''}", base="chain_core", func="vf.harness.c06:chain_core", params=params, pre=pre, fixed=fixed,
                          timeout=240 if q else 1500, note="alias chain built from core objects; links: s=slice, w=whole-register alias, q=single-qubit alias (last); "
                          f"slice bounds {'let constants' if lazy else 'literals'}; oracle: composed start+i*step arithmetic over explicit element lists",
                          functions=FUNCS[:3] + ["Register.__init__", "NamedQubit.__init__", "Register.__getitem__"]))
    for t in WITH_MAPS + ["t_index", "t_macro_idx"] + ([] if q else ["t_blocks"]):
        out.extend(tjobs(f"{H}:c06_mapfill", t, tier, functions=FUNCS, timeout=400,
                         shrink=({"i": (0, 1), "j": (0, 1)} if (q and t in ("t_macro_twice", "t_shadow_reg", "t_macro_single")) else None),
                         note=f"{t}: fill_in_map after fill_in_let (and after expand_macros); oracle: meaning unchanged, no alias referenced any more, "
                              "get_used_qubit_indices == reference set"))
    for t in (["t_alias_macro", "t_chain", "t_slice_let", "t_macro_twice"] if q else WITH_MAPS):
        for mask in (0, 1):
            ep = [("o0", "int")] if mask else []
            pre = ["0 <= o0 <= 2"] if mask else []
            fx = {"mask": mask}
            if not mask:
                fx["o0"] = 0
            out.extend(tjobs("vf.harness.walk:state_template", t, tier, fixed=fx, extra_params=ep, extra_pre=pre, timeout=600 if q else 2400,
                             shrink=({"size": (2, 3), "a": (0, 1), "b": (1, 3), "c": (1, 2), "i": (0, 1), "j": (0, 1)} if q else None),
                             name=f"c06_emulator_{t}_m{mask}", base="state_template", functions=FUNCS + ["UnitarySerializedEmulator._make_subcircuit"],
                             note=f"{t}: the emulator acts on the same physical qubit as the reference resolution of every alias reference (state comparison), and "
                                  "get_used_qubit_indices of the circuit as written (macros unexpanded) equals the reference set"))
    return out
