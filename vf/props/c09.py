from ..jobs import CH
from ._util import tjobs
from ..spec.templates import WITH_SUBS, ALL

H = "vf.harness.algebra"
FUNCS = ["expand_subcircuits", "_choose_bounding_gate", "SubcircuitExpander.visit_*", "run_jaqal_circuit", "parse_jaqal_output_list", "DiscoverSubcircuits"]
META = {
    "bounds": {"quick": "structural: all templates x 3 ways of choosing prepare/measure definitions, quick leaf ranges; "
                        "behavioural: bracket programs (vf/harness/walk.py) with <= 4 items, both spellings",
               "thorough": "thorough leaf ranges; bracket programs with <= 5 items"},
    "assumptions": ["the structural sub-claim is enumeration-equivalent over shapes (no numeric content besides counts and indices)"],
    "outside": ["subcircuit blocks nested in parallel blocks or other subcircuits (rejected by the builder)"],
}


def jobs(tier):
    out = []
    for t in ALL:
        for defs in (0, 1, 2):
            if t not in WITH_SUBS and defs:
                continue
            out.extend(tjobs(f"{H}:c09_expand", t, tier, fixed={"defs": defs}, functions=FUNCS, timeout=200,
                             note=f"{t}: expand_subcircuits ({['default', 'caller definitions', 'caller names'][defs]}); oracle: tree == reference with each "
                                  "sub(n, B) replaced by seq(prepare, B, measure); header unchanged; no subcircuit block left (also in macro bodies)"))
    from .c08 import spelling_jobs
    out.extend(spelling_jobs(tier))
    return out
