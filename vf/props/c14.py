from ..jobs import CH

H = "vf.harness.c14"
META = {
    "bounds": {
        "quick": "core objects: size 1..8, index -3..10, slice start/stop -3..10, step -2..4",
        "thorough": "core objects: size 1..12, index/bounds -3..14, step -2..4",
    },
    "assumptions": [
        "CrossHair 0.0.110 path exploration is exhaustive when it reports 'Confirmed over all paths' (z3 decides each branch)",
        "integers outside the stated ranges are outside the claim",
    ],
    "outside": ["indices/bounds outside the stated integer ranges"],
}


def jobs(tier):
    q = tier == "quick"
    smax, vmax = (8, 10) if q else (12, 14)
    out = []
    for how in (0, 1, 2):
        out.append(CH(
            name=f"index_core_how{how}", base="index_core", func=f"{H}:index_core",
            params=[("size", "int"), ("idx", "int")], fixed={"how": how},
            pre=[f"1 <= size <= {smax}", f"-3 <= idx <= {vmax}"],
            timeout=60, note="symbolic register size and index; oracle: accepted <=> 0 <= idx < size and resolves to r[idx]",
            functions=["Register.__init__", "Register.__getitem__", "NamedQubit.__init__", "NamedQubit.resolve_qubit", "Register.resolve_qubit"],
        ))
    for step in (-2, -1, 0, 1, 2, 3, 4):
        out.append(CH(
            name=f"slice_core_step{step}", base="slice_core", func=f"{H}:slice_core",
            params=[("size", "int"), ("start", "int"), ("stop", "int"), ("idx", "int")], fixed={"step": step},
            pre=[f"1 <= size <= {smax}", f"-3 <= start <= {vmax}", f"-3 <= stop <= {vmax}", f"-3 <= idx <= {vmax}"],
            timeout=120, twin=(step != 0), note="symbolic size, slice start/stop and index (step fixed per shard); oracle: reference slice arithmetic",
            functions=["Register.__init__", "Register.resolve_size", "Register.resolve_qubit", "NamedQubit.__init__"],
        ))
    return out
