from ..jobs import CH
from ._util import tjobs, window
from ..spec.templates import ALL, WITH_LETS

H = "vf.harness.c14"
META = {
    "bounds": {
        "quick": "core objects: size 1..8, index -3..10, slice start/stop -3..10, step -2..4",
        "thorough": "core objects: size 1..12, index/bounds -3..14, step -2..4",
    },
    "assumptions": [
        "CrossHair 0.0.110 path exploration is exhaustive when it reports 'Confirmed over all paths' (z3 decides each branch)",
        "integers outside the stated ranges are outside the claim",
    ],
    "outside": ["indices/bounds outside the stated integer ranges"],
}


def jobs(tier):
    q = tier == "quick"
    smax, vmax = (8, 10) if q else (12, 14)
    out = []
    for how in (0, 1, 2):
        out.append(CH(
            name=f"index_core_how{how}", base="index_core", func=f"{H}:index_core",
            params=[("size", "int"), ("idx", "int")], fixed={"how": how},
            pre=[f"1 <= size <= {smax}", f"-3 <= idx <= {vmax}"],
            timeout=60, note="symbolic register size and index; oracle: accepted <=> 0 <= idx < size and resolves to r[idx]",
            functions=["Register.__init__", "Register.__getitem__", "NamedQubit.__init__", "NamedQubit.resolve_qubit", "Register.resolve_qubit"],
        ))
    for step in (-2, -1, 0, 1, 2, 3, 4):
        out.append(CH(
            name=f"slice_core_step{step}", base="slice_core", func=f"{H}:slice_core",
            params=[("size", "int"), ("start", "int"), ("stop", "int"), ("idx", "int")], fixed={"step": step},
            pre=[f"1 <= size <= {smax}", f"-3 <= start <= {vmax}", f"-3 <= stop <= {vmax}", f"-3 <= idx <= {vmax}"],
            timeout=120, twin=(step != 0), note="symbolic size, slice start/stop and index (step fixed per shard); oracle: reference slice arithmetic",
            functions=["Register.__init__", "Register.resolve_size", "Register.resolve_qubit", "NamedQubit.__init__"],
        ))
    for t in ALL:
        if t == "t_float":
            continue
        for mask in ((0, 1) if q else (0, 1, 3)):
            ep = [("o0", "int")] if mask else []
            pre = ["0 <= o0 <= 2" if q else "-2 <= o0 <= 5"] if mask else []
            fx = {"mask": mask, "o1": 0}
            if not mask:
                fx["o0"] = 0
            if mask and t not in WITH_LETS:
                continue        # nothing to override
            if q and mask and t == "t_slice_let":
                continue        # with the quick window every override of the alias bound invalidates the alias
            out.extend(tjobs(f"{H}:c14_pipeline", t, tier, fixed=fx, extra_params=ep, extra_pre=pre, timeout=400 if q else 1500,
                             shrink=(window(t, tier, 1 if (not mask or t == 't_regsize_let') else 0, wide=(["i"] if t not in ("t_macro_sub", "t_blocks") else [])) if q else None),
                             functions=["Builder.build", "Builder.build_array_item", "Builder.add_to_context", "Builder.get_gate_definition", "AbstractGate.call",
                                        "Parameter.validate", "fill_in_let", "expand_macros", "GateReplacer.visit_NamedQubit", "run_jaqal_circuit"],
                             note=f"{t} over the native gate set, override mask {mask}: if the reference finds a reference that cannot be honoured, some stage up to "
                                  "emulation raises JaqalError (never another exception, never a result)"))
    for order in range(3):
        u, v = [(0, 0), (1, 1), (1, 0)][order]
        out.append(CH(name=f"c14_names_o{order}", base="c14_names", func=f"{H}:c14_names",
                      params=[("n0", "int"), ("n1", "int"), ("n2", "int"), ("n3", "int")] + ([] if q else [("u", "int"), ("v", "int")]),
                      pre=["n0 == 0" if q else "0 <= n0 < 4", "0 <= n1 < 4", "0 <= n2 < 4", "0 <= n3 < 4"] + ([] if q else ["0 <= u < 2", "0 <= v < 2"]),
                      fixed=dict({"order": order}, **({"u": u, "v": v} if q else {})), timeout=400 if q else 1500,
                      functions=["Builder.build_circuit", "Builder.add_to_context", "Builder.build_let", "Builder.build_register", "Builder.build_map", "fill_in_let", "run_jaqal_circuit"],
                      note="names of two lets, the register and an alias drawn from a pool of four: a name defined twice (by the same or by different kinds of declaration) "
                           "is rejected with JaqalError; four distinct names run"))
    for inj in range(4):
        for mb in range(4):
            out.append(CH(name=f"gatesets_inj{inj}_b{mb}", base="c14_gatesets", func=f"{H}:c14_gatesets", params=[("ma", "int"), ("nargs", "int"), ("other", "bool"), ("as_list", "bool")],
                          pre=["0 <= ma <= 3", "0 <= nargs <= 3"], fixed={"inj": inj, "mb": mb}, timeout=300,
                          functions=["UsePulsesStatement.update_gates", "Builder.build_circuit", "Builder.get_gate_definition", "jaqal_import", "normalize_native_gates"],
                          note="precedence injected (dict or list) > later import > earlier import decides the arity a call must have; unknown gates are rejected when natives are in force"))
    return out
