from ..jobs import CH
from ..harness.gatedefs import NSEL

H = "vf.harness.gatedefs"
META = {
    "bounds": {"quick": "signatures of 0..2 parameters over the 5 kinds (enumerated shards), 0..3 arguments, each argument any of 14 value kinds (solver-chosen), "
                        "int values -2..9 and float values from a 5-value grid (symbolic floats make the validation branch unconfirmable); idle and stretched variants of a 4-gate set, 3 suffix choices, symbolic float arguments",
               "thorough": "signatures of 0..3 parameters"},
    "assumptions": ["acceptance table transcribed from the statement (vf/harness/gatedefs.py: fits)"],
    "outside": ["keyword calls with misspelt names (rejected, not compared)"],
}


def jobs(tier):
    q = tier == "quick"
    out = []
    F = ["AbstractGate.call", "Parameter.validate", "GateStatement.__eq__"]
    sigs = [()] + [(a,) for a in range(5)] + ([(0, 2), (2, 3), (1, 4), (3, 0), (4, 1), (2, 2)] if q else [(a, b) for a in range(5) for b in range(5)])
    if not q:
        sigs += [(0, 2, 3), (1, 4, 2), (3, 3, 0)]
    for sig in sigs:
        k = list(sig) + [4] * (3 - len(sig))
        for nargs in range(4):
            if nargs > len(sig) + 1:
                continue
            params = [(f"s{n}", "int") for n in range(nargs)] + [("xi", "int")] + ([] if q else [("v", "int")])
            pre = [f"0 <= s{n} < {NSEL}" for n in range(nargs)] + ["0 <= xi <= 2" if q else "0 <= xi <= 4"] + ([] if q else ["1 <= v <= 2"])
            if nargs == 3:
                pre.append("s2 == 0 or s2 == 3 or s2 == 12")
            if nargs >= 2:
                # quick: the second argument ranges over six representative kinds
                pre.append("s1 == 0 or s1 == 2 or s1 == 3 or s1 == 4 or s1 == 10 or s1 == 12")
            fixed = {"k0": k[0], "k1": k[1], "k2": k[2], "nparams": len(sig), "nargs": nargs}
            if q:
                fixed["v"] = 1
            for n in range(nargs, 3):
                fixed[f"s{n}"] = 0
            out.append(CH(name="c18_call_" + ("".join(map(str, sig)) or "none") + f"_n{nargs}", base="c18_call", func=f"{H}:c18_call", params=params, pre=pre, fixed=fixed,
                          timeout=600 if q else 2400, functions=F, twin=(nargs == len(sig)),
                          note="accepted <=> arity matches and every argument fits its parameter kind; positional, keyword and reordered keyword calls agree and give equal statements"))
    for w in range(4):
        out.append(CH(name=f"c18_idle_{w}", base="c18_idle", func=f"{H}:c18_idle", params=[("v", "int")], pre=["0 <= v <= 20"], fixed={"which": w}, timeout=200,
                      functions=["add_idle_gates", "IdleGateDefinition.__init__", "IdleGateDefinition.used_qubits"],
                      note="idle gate: same signature, no qubits, no unitary; none for prepare/measure"))
        for wi in (False, True):
            for sfx in range(3):
                out.append(CH(name=f"c18_stretch_{w}_{'idle' if wi else 'plain'}_{sfx}", base="c18_stretch", func=f"{H}:c18_stretch",
                              params=[("t", "float"), ("s", "float"), ("n", "int")], pre=["t == t", "s == s"], fixed={"which": w, "with_idle": wi, "sfx": sfx},
                              timeout=200, functions=["stretched_gates", "AbstractGate.copy"],
                              note="stretched gate: parent's parameters + trailing FLOAT; ideal action equals the parent's for every (symbolic) stretch factor and argument"))
    return out
