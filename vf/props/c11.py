from ..jobs import CH
from ._util import tjobs
from ..spec.templates import ranges
from ..harness.algebra import OPS

H = "vf.harness.algebra"
FUNCS = ["expand_macros", "fill_in_let", "fill_in_map", "expand_subcircuits", "normalize_blocks_with_unitary_timing", "get_used_qubit_indices",
         "generate_jaqal_program", "run_jaqal_circuit", "parse_jaqal_output_list"]
META = {
    "bounds": {"quick": f"histories of 2 calls chosen from {len(OPS)} operations (all ordered pairs), 3 templates over the native gate set, leaves in 2-value windows",
               "thorough": "all ordered pairs on 6 templates, leaves in 2-value windows (triples: only through the harness parameter op3, not scheduled)"},
    "assumptions": ["deep snapshot = every attribute of every core object reachable from the circuit, including identity and order of every container",
                    "enumeration-equivalent over histories: the solver only selects them; leaf values are symbolic"],
    "outside": ["histories longer than 3", "IPC execution"],
}


def jobs(tier):
    q = tier == "quick"
    out = []
    temps = ["t_macro_sub", "t_seqfirst"] if q else ["t_macro_sub", "t_alias_macro", "t_blocks", "t_loop_sub", "t_seqfirst", "t_float", "t_macro_empty", "t_macro_twice"]
    n = len(OPS)
    for t in temps:
        shrink = {}
        for nm, lo, hi in ranges(t, tier):
            base = max(lo, 0) if lo <= 0 <= hi else lo
            if nm == "size":
                base = min(hi, 2)
            shrink[nm] = (base, min(hi, base + (0 if q else 1)))
        if t in (("t_macro_sub",) if q else ("t_macro_sub", "t_loop_sub")):
            # the same over a custom gate set that does not define the bounding gates prepare_all / measure_all
            for op1 in ((2, 5) if q else range(n - 2)):
                out.extend(tjobs(f"{H}:c11_history", t, tier, shrink=shrink, fixed={"native": 2, "op1": op1, "op3": -1},
                                 extra_params=[("op2", "int")], extra_pre=[f"0 <= op2 < {n - 2}"], functions=FUNCS, timeout=300 if q else 1500,
                                 name=f"c11_history_nobound_{t}_{OPS[op1]}", base="c11_history",
                                 note=f"{t} over a gate set without prepare_all/measure_all: {OPS[op1]} then any second operation (emulation excluded) on the same circuit object"))
        if t in (("t_seqfirst",) if q else ("t_seqfirst", "t_blocks", "t_macro_empty")):
            # the program as written (not bracketed for execution, anonymous gates): a plain block is the first
            # statement of the top level, macro calls follow
            for op1 in ((0, 6) if q else (0, 1, 2, 5, 6)):
                out.extend(tjobs(f"{H}:c11_history", t, tier, shrink=shrink, fixed={"native": 0, "op1": op1, "op3": -1},
                                 extra_params=[("op2", "int")], extra_pre=[f"0 <= op2 < {n - 2}"], functions=FUNCS, timeout=300 if q else 1500,
                                 name=f"c11_history_anon_{t}_{OPS[op1]}", base="c11_history",
                                 note=f"{t} as written, without a native gate set: {OPS[op1]} then any second operation (emulation excluded) on the same circuit object"))
        for op1 in range(n):
            out.extend(tjobs(f"{H}:c11_history", t, tier, shrink=shrink, fixed={"native": True, "op1": op1, "op3": -1},
                             extra_params=[("op2", "int")], extra_pre=[f"0 <= op2 < {n}"], functions=FUNCS, timeout=300 if q else 1500,
                             name=f"c11_history_{t}_{OPS[op1]}", base="c11_history",
                             note=f"{t}: {OPS[op1]} then any second operation on the same circuit object; snapshot unchanged after each call, results equal to fresh-copy results"))
    return out
