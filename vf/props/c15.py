from ..jobs import CH, SMT

H = "vf.harness.results"
META = {
    "bounds": {"quick": "n = 1..3 qubits, both outputs 0..2^n-1 symbolic, each given as int or as bit string; emulated views for n = 2..3 and all qubit pairs; "
                        "normalisation (E4, QF_NRA over the reals) for 2, 4 and 8 outcomes",
               "thorough": "n = 1..4 (n = 5 did not exhaust within the per-obligation budget: 1024 realised value pairs); emulated views n = 2..4"},
    "assumptions": ["reals stand in for doubles in the normalisation obligation (a statement about the algorithm, not about ulps)"],
    "outside": ["floating-point rounding", "n > 5"],
}


def jobs(tier):
    q = tier == "quick"
    out = []
    for n in ((1, 2, 3) if q else (1, 2, 3, 4)):
        for a in range(4):
            out.append(CH(name=f"c15_readout_n{n}_s{a}", base="c15_readout", func=f"{H}:c15_readout", params=[("r0", "int"), ("r1", "int")],
                          pre=[f"0 <= r0 < {1 << n}", f"0 <= r1 < {1 << n}"], fixed={"n": n, "as_string": a}, timeout=400 if q else 1500,
                          functions=["Readout.as_str", "Readout.as_int", "OutputParser.process_trace", "ReadoutSubcircuit.accept_readout",
                                     "RelativeFrequencySubcircuit.relative_frequency_by_str", "parse_jaqal_output_list"],
                          note="as_str has n characters, character k is bit k of as_int; string and int outputs are read identically; the string-keyed view lists the "
                               "2^n outcomes in integer order with little-endian keys and agrees with the integer view; relative frequencies are readout counts"))
    for n in ((2, 3) if q else (2, 3, 4)):
        out.append(CH(name=f"c15_views_n{n}", base="c15_views", func=f"{H}:c15_views", params=[("i", "int"), ("j", "int")],
                      pre=[f"0 <= i < {n}", f"0 <= j < {n}"], fixed={"n": n}, timeout=400,
                      functions=["ProbabilisticSubcircuit.__init__", "ProbabilisticSubcircuit.simulated_probability_by_str", "UnitarySerializedEmulator._make_subcircuit"],
                      note="emulated distribution: >= 0, sums to 1, |state|^2, string view == integer view with little-endian keys, support on the acted-on bits"))
    for n in ((1, 2) if q else (1, 2, 3)):
        out.append(CH(name=f"c15_history_n{n}", base="c15_history", func=f"{H}:c15_history", params=[("i", "int"), ("p0", "int"), ("p1", "int")],
                      pre=[f"0 <= i < {n}", "0 <= p0 <= 3", "0 <= p1 <= 3"], fixed={"n": n}, timeout=400,
                      functions=["ReadoutSubcircuit.accept_readout", "RelativeFrequencySubcircuit.relative_frequency_by_str", "IndependentSubcircuitsJob.execute"],
                      note="history: read both frequency views, execute the same job again (more readouts), read again: views agree with each other and with the readout counts"))
    for m in (2, 4, 8):
        out.append(SMT(name=f"normalise_m{m}", func="vf.smt.kernel:q_normalise", kwargs={"m": m}, timeout=400,
                       functions=["ProbabilisticSubcircuit.__init__ (translated from its AST)"],
                       note="for all real inputs: RuntimeError is raised, or every stored probability is >= 0 and they sum to 1"))
    return out
