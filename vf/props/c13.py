from ..jobs import CH

H = "vf.harness.walk"
META = {
    "bounds": {"quick": "10 program shapes with parallel blocks (busy gates as branches, gates, sequential sub-blocks, aliases, macro parameters, nested macros with coinciding parameter names, macros indexing by / into a parameter called several times, whole-register aliases, loops, nested parallel blocks, idle gates), "
                        "register size 3, all four indices -1..3; two shapes also after another circuit (other register name and size) was analysed and emulated in the same process",
               "thorough": "register sizes 3 and 4, indices -1..4"},
    "assumptions": ["busy = the prepare_all/measure_all definitions of the harness gate set; idle = I_<gate> definitions from add_idle_gates"],
    "outside": ["repeated qubit arguments of one gate (rejected by the emulator, see C16)", "more than 3 branches"],
}


def jobs(tier):
    q = tier == "quick"
    out = []
    for shape, warm in [(s, 0) for s in range(10)] + [(0, 1), (7, 1)] + ([] if q else [(3, 1), (8, 1)]):
        for size in (3,):
            for i in (range(0, size) if q else range(-1, size + 1)):
                if warm and q and i != 1:
                    continue
                out.append(CH(name=f"c13_parallel_s{shape}_n{size}_i{i}" + ("_warm" if warm else ""), base="c13_parallel", func=f"{H}:c13_parallel",
                              params=[("j", "int"), ("k", "int"), ("l", "int")], pre=([f"0 <= j < {size}", f"0 <= k < {size - 1}", f"0 <= l < {size}"] if q else [f"0 <= j < {size}", f"0 <= k < {size}", f"-1 <= l <= {size}"]),
                              fixed={"shape": shape, "size": size, "i": i, "warm": warm}, timeout=400 if q else 1500, twin=(shape != 7 and not (shape == 2 and i >= size - 1)),
                              functions=["UsedQubitIndicesVisitor.visit_*", "UsedQubitIndicesVisitor.merge_into", "GateStatement.used_qubits", "GateDefinition.used_qubits",
                                         "IdleGateDefinition.used_qubits", "BusyGateDefinition.used_qubits", "DiscoverSubcircuits.visit_BlockStatement", "run_jaqal_circuit"],
                              note="emulator rejects (JaqalError) <=> some parallel block has two branches with intersecting reference qubit sets; accepted results "
                                   "are equal for both written orders of the branches; get_used_qubit_indices of the circuit and of each statement == reference set"))
    return out
