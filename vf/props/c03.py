from ..jobs import CH, SMT
from ._util import tjobs

H = "vf.harness.walk"
META = {
    "bounds": {"quick": "index kernel (E4, QF_BV): register size n <= 8, every basis index, every ordered tuple of k <= 3 distinct qubits, every column; "
                        "pipeline (E1): 4 program shapes over 1/2/3-qubit, parametrised, idle and unitary-less gates, aliases, macros, loops, parallel blocks, subcircuits; "
                        "size 3, qubit indices 0..2, loop count 0..2, 3 float values, with and without an override dictionary",
               "thorough": "kernel n <= 14; pipeline sizes 3 and 4, 5 float values, 3 overrides"},
    "assumptions": ["matrix arithmetic is numpy's (IEEE rounding outside the claim; states compared with tolerance 1e-9)",
                    "the kernel obligation abstracts `vec[i] += inp[j]*dsub[r,c]` to the event (i, j, r, c); numpy's element arithmetic is trusted"],
    "outside": ["IEEE-754 rounding", "pyGSTi backends", "registers larger than the bounds", "repeated qubit arguments (rejected)"],
}


def jobs(tier):
    q = tier == "quick"
    out = []
    for k in (1, 2, 3):
        out.append(SMT(name=f"kernel_k{k}", func="vf.smt.kernel:q_emulator_kernel", kwargs={"k": k, "nmax": 8 if q else 14}, timeout=600,
                       functions=["UnitarySerializedEmulator._make_subcircuit (per-gate loop body)"],
                       note=f"{k}-qubit gate: the index arithmetic of the sparse multiply equals (U on the argument qubits, identity elsewhere), little-endian"))
    for shape in range(4):
        for size in ((3,) if q else (3, 4)):
            for x, ov in (((0, -1), (4, 2)) if q else ((0, -1), (4, 2), (1, 5))):
                for i in range(size - 1 if shape in (2, 3) else size):
                    out.append(CH(name=f"c03_state_s{shape}_n{size}_x{x}_ov{ov}_i{i}", base="c03_state", func=f"{H}:c03_state",
                                  params=[("j", "int"), ("k", "int"), ("n", "int")], pre=[f"0 <= j < {size}", f"0 <= k < {size}", "0 <= n <= 2"],
                                  fixed={"shape": shape, "size": size, "i": i, "x": x, "ov": ov}, timeout=400 if q else 1500,
                                  functions=["run_jaqal_circuit", "expand_subcircuits", "fill_in_let", "expand_macros", "DiscoverSubcircuits", "TraceSerializer",
                                             "Visitor.trace_statements", "UnitarySerializedEmulator._make_subcircuit"],
                                  note="state vector of every subcircuit == U_k..U_1|0> computed by an independent pure-Python tensor-product reference over the "
                                       "reference meaning (lets/overrides applied, macros expanded, loops unrolled, aliases resolved)"))
    for t in (["t_alias_macro", "t_chain", "t_macro_nested", "t_blocks"] if q else ["t_alias_macro", "t_chain", "t_macro_nested", "t_blocks", "t_macro_sub", "t_slice_let", "t_seqfirst", "t_let_arg", "t_macro_idx"]):
        out.extend(tjobs(f"{H}:state_template", t, tier, fixed={"mask": 0, "o0": 0}, timeout=600 if q else 2400, name=f"c03_template_{t}", base="state_template",
                         shrink=({"size": (2, 3), "a": (0, 1), "c": (1, 2), "i": (0, 1), "j": (0, 1), "k": (0, 1)} if q else None),
                         functions=["run_jaqal_circuit", "UnitarySerializedEmulator._make_subcircuit", "TraceSerializer"],
                         note=f"{t} bracketed for execution: emulated state of every subcircuit == reference product over the reference meaning"))
    return out
