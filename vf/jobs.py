"""Job descriptions shared by the property modules and the driver.

A *CrossHair job* (CH) is one symbolic-execution obligation: a harness function of
``vf/harness`` called on symbolic arguments constrained by preconditions.  Harness
functions return a string:

    ""          the oracle was evaluated on this path and agreed
    "~reason"   the path ended before the oracle (input rejected as the property allows)
    otherwise   a diagnostic: the property is violated for these arguments

so the generated contract is ``post: _ == "" or _.startswith("~")`` and the
reachability twin is ``post: _ != ""`` (a counterexample to the twin is a path on
which the oracle was really evaluated).

A *solver job* (SMT) is a Python callable run in its own process that builds an SMT
encoding from /repo's current source and returns an SmtResult.
"""
from dataclasses import dataclass, field
from typing import Callable, Dict, List, Optional, Tuple


@dataclass
class CH:
    name: str                       # unique within the property
    func: str                       # "module:function" of the harness
    params: List[Tuple[str, str]]   # symbolic parameters (name, type annotation)
    pre: List[str]                  # preconditions over the symbolic parameters
    fixed: Dict[str, object] = field(default_factory=dict)  # concrete arguments
    timeout: int = 120              # --per_condition_timeout (CPU s)
    path_timeout: float = 30.0
    note: str = ""                  # what is symbolic / what the oracle is, for evidence
    functions: List[str] = field(default_factory=list)  # jaqalpaq functions executed
    twin: bool = True
    # base name used to look up known findings (shards of one harness share it)
    base: Optional[str] = None

    @property
    def kbase(self):
        return self.base or self.name


@dataclass
class SmtResult:
    status: str                     # "unsat" (discharged) | "sat" (counterexample) | "unknown" | "error"
    detail: str = ""
    queries: int = 0
    solver_time_s: float = 0.0
    # for counterexamples: a replay record {"func": "module:function", "args": {...}}
    replay: Optional[dict] = None
    samples: List[object] = field(default_factory=list)
    vacuity_ok: bool = True
    extra: Dict[str, object] = field(default_factory=dict)


@dataclass
class SMT:
    name: str
    func: str                       # "module:function" returning SmtResult (called with **kwargs)
    kwargs: Dict[str, object] = field(default_factory=dict)
    timeout: int = 300              # wall seconds
    note: str = ""
    functions: List[str] = field(default_factory=list)
    base: Optional[str] = None

    @property
    def kbase(self):
        return self.base or self.name
