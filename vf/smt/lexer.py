"""E2: the lexer's regular expressions, read from the live JaqalLexer class, as z3 regular expressions.

Model of sly's lexer (sly/lex.py): at each position characters of `ignore` are skipped, then the
master pattern -- the rules joined by '|' in definition order -- is matched with re.match, i.e. the
FIRST rule (in order) that matches a prefix wins and consumes that rule's leftmost-greedy match; if no
rule matches, a single literal character is taken; otherwise error().  For the patterns in question the
leftmost-greedy match of a rule on a string of its own language followed by a delimiter is the whole
string (validated against the real lexer by the E1 harnesses on short strings and by the replay of
every model below).
"""
import re
import re._parser as sp
import time
from re._constants import (ANY, BRANCH, CATEGORY, CATEGORY_DIGIT, CATEGORY_SPACE, CATEGORY_WORD, IN, LITERAL, MAX_REPEAT, MAXREPEAT,
                           MIN_REPEAT, NEGATE, NOT_LITERAL, RANGE, SUBPATTERN)

import z3

from ..jobs import SmtResult

SS = z3.StringSort()
ALLCHAR = z3.AllChar(z3.ReSort(SS))
SIGMA_STAR = z3.Full(z3.ReSort(SS))


def S(x):
    return z3.Re(z3.StringVal(x))


class Untranslatable(Exception):
    pass


def _cls(items):
    parts = []
    neg = False
    for op, av in items:
        if op is NEGATE:
            neg = True
        elif op is LITERAL:
            parts.append(S(chr(av)))
        elif op is RANGE:
            parts.append(z3.Range(chr(av[0]), chr(av[1])))
        elif op is CATEGORY and av is CATEGORY_DIGIT:
            parts.append(z3.Range("0", "9"))
        else:
            raise Untranslatable(f"class item {op} {av}")
    u = parts[0] if len(parts) == 1 else z3.Union(*parts)
    if neg:
        return z3.Intersect(ALLCHAR, z3.Complement(u))
    return u


def _tr(p):
    res = []
    for op, av in p:
        if op is LITERAL:
            res.append(S(chr(av)))
        elif op is NOT_LITERAL:
            res.append(z3.Intersect(ALLCHAR, z3.Complement(S(chr(av)))))
        elif op is IN:
            res.append(_cls(av))
        elif op is ANY:
            res.append(z3.Intersect(ALLCHAR, z3.Complement(S("\n"))))
        elif op is SUBPATTERN:
            res.append(_tr(av[3]))
        elif op is BRANCH:
            res.append(z3.Union(*[_tr(x) for x in av[1]]))
        elif op in (MAX_REPEAT, MIN_REPEAT):
            lo, hi, sub = av
            r = _tr(sub)
            if hi is MAXREPEAT:
                res.append(z3.Star(r) if lo == 0 else (z3.Plus(r) if lo == 1 else z3.Concat(*([r] * lo + [z3.Star(r)]))))
            elif (lo, hi) == (0, 1):
                res.append(z3.Option(r))
            else:
                res.append(z3.Loop(r, lo, hi))
        else:
            raise Untranslatable(f"regex op {op}")
    if not res:
        return S("")
    return res[0] if len(res) == 1 else z3.Concat(*res)


def rx(pat):
    return _tr(sp.parse(pat))


def live_lexer():
    """(ordered rules [(name, pattern)], literals, ignore chars, remapping) from the live class."""
    from jaqalpaq.parser.slyparse import JaqalLexer
    rules = []
    for n, p in JaqalLexer._rules:
        rules.append((n, p if isinstance(p, str) else p.pattern))
    remap = {}
    for tok, m in getattr(JaqalLexer, "_remapping", {}).items():
        for text, new in m.items():
            remap[text] = new
    return rules, set(JaqalLexer.literals), JaqalLexer.ignore, remap


def _rules_re():
    rules, literals, ignore, remap = live_lexer()
    return [(n, p, rx(p)) for n, p in rules], literals, ignore, remap


def single_token_constraints(s, token, rules, delims):
    """Constraints saying that s, followed by any delimiter in `delims`, is NOT lexed as exactly one
    token `token`.  Returns a list of alternative 'bad' conditions (their disjunction)."""
    bad = []
    target = None
    for name, pat, r in rules:
        if name == token:
            target = r
            break
        # an earlier rule matches some prefix of s (or of s + delimiter + anything)
        bad.append(z3.InRe(s, z3.Concat(r, SIGMA_STAR)))
    if target is None:
        raise Untranslatable(f"no rule {token}")
    bad.append(z3.Not(z3.InRe(s, target)))
    for d in delims:
        # the rule could run past the end of s into the delimiter
        bad.append(_runs_past(s, target, d))
    return bad


def _runs_past(s, target, d):
    """exists u in L(target) with prefix s+d (the greedy match would swallow the delimiter)."""
    u = z3.String("u_" + str(abs(hash(d)) % 997))
    return z3.And(z3.InRe(u, target), z3.PrefixOf(z3.Concat(s, z3.StringVal(d)), u))


D = z3.Range("0", "9")
D19 = z3.Range("1", "9")
INTPART = z3.Union(S("0"), z3.Concat(D19, z3.Star(D)))
# CPython repr()/str() of a finite float (float_repr_style 'short'): fixed notation, or exponent notation
FIXED = z3.Concat(z3.Option(S("-")), INTPART, S("."), z3.Plus(D))
EXPO = z3.Concat(z3.Option(S("-")), D, z3.Option(z3.Concat(S("."), z3.Plus(D))), S("e"), z3.Union(S("+"), S("-")), D, z3.Plus(D))
FLOATREPR = z3.Union(FIXED, EXPO)
INTREPR = z3.Concat(z3.Option(S("-")), INTPART)

BOUNDARY_FLOATS = [1e16, 9999999999999998.0, 1e-4, 9.9e-5, 5e-324, 1.7976931348623157e308, -0.0, 0.1, 123456.789, 1e22, 1.5e-7, -2.5e+300, 1e-05, 100.0]


def _check(cons, timeout_ms=120000):
    sol = z3.Solver()
    sol.set("timeout", timeout_ms)
    sol.add(*cons)
    t0 = time.time()
    r = sol.check()
    return str(r), sol, time.time() - t0


def _generator_float_transform(s):
    """Encode, from the live source of generate_jaqal_value, how a float's str() is turned into text.
    Supported shapes: `return str(val)`  or the repair shape
        text = str(val); if "e" in text and "." not in text: mantissa, exponent = text.split("e");
        text = f"{mantissa}.0e{exponent}"; return text
    Returns a z3 string expression, or raises Untranslatable."""
    import ast
    import inspect
    import textwrap
    from jaqalpaq.generator import generator as G
    # generate_jaqal_value first; if the float case was moved into a helper, every other function of the module
    fns = [ast.parse(textwrap.dedent(inspect.getsource(G.generate_jaqal_value))).body[0]]
    for node in ast.parse(inspect.getsource(G)).body:
        if isinstance(node, ast.FunctionDef) and node.name != "generate_jaqal_value":
            fns.append(node)
    branch = None
    for fn in fns:
        for n in ast.walk(fn):
            if isinstance(n, ast.If):
                t = ast.unparse(n.test)
                if "float" in t and "isinstance(val" in t.replace(" ", "") and "Register" not in t:
                    branch = n
                    break
        if branch is not None:
            break
    if branch is None:
        raise Untranslatable("float branch of generate_jaqal_value not found")
    covers_int = "int" in ast.unparse(branch.test).replace("isinstance", "")
    body = branch.body
    if len(body) == 1 and isinstance(body[0], ast.Return) and ast.unparse(body[0].value) == "str(val)":
        return "identity", covers_int
    try:
        a0, if0, ret = body
        assert ast.unparse(a0) == "text = str(val)"
        assert isinstance(if0, ast.If) and ast.unparse(if0.test) == "'e' in text and '.' not in text" and not if0.orelse
        sp_, fs = if0.body
        assert ast.unparse(sp_) in ("(mantissa, exponent) = text.split('e')", "mantissa, exponent = text.split('e')")
        assert ast.unparse(fs) == "text = f'{mantissa}.0e{exponent}'"
        assert ast.unparse(ret) == "return text"
    except Exception:
        raise Untranslatable("float branch of generate_jaqal_value has an unsupported shape: " + ast.unparse(branch)[:200])
    return "insert_dot_zero", covers_int


def q_float_repr():
    """Every text the generator prints for a finite float lexes back as exactly one NUMBER token.
    The float's str() is split by cases so that the generator's transformation is a concatenation:
      A  fixed notation, or exponent notation with a fraction:  text = s
      B  exponent notation without fraction  m 'e' x:            text = s  or  m '.0e' x  (live shape)"""
    try:
        rules, literals, ignore, remap = _rules_re()
        shape, _ = _generator_float_transform(None)
    except Untranslatable as ex:
        return SmtResult(status="not_encoded", detail=str(ex))
    for x in BOUNDARY_FLOATS:
        r, _, _ = _check([z3.Not(z3.InRe(z3.StringVal(repr(x)), FLOATREPR))])
        if r != "unsat":
            return SmtResult(status="error", detail=f"float repr model does not contain repr({x!r})")
    s = z3.String("s")
    t = z3.String("t")
    m = z3.String("m")
    e = z3.String("e")
    MANT = z3.Concat(z3.Option(S("-")), D)
    EXPPART = z3.Concat(z3.Union(S("+"), S("-")), D, z3.Plus(D))
    EXPO_DOT = z3.Concat(z3.Option(S("-")), D, S("."), z3.Plus(D), S("e"), EXPPART)
    caseA = [z3.InRe(s, z3.Union(FIXED, EXPO_DOT)), t == s]
    caseB = [z3.InRe(m, MANT), z3.InRe(e, EXPPART), s == z3.Concat(m, z3.StringVal("e"), e),
             t == (z3.Concat(m, z3.StringVal(".0e"), e) if shape == "insert_dot_zero" else s)]
    bad = single_token_constraints(t, "NUMBER", rules, [" ", "\n", "]", ":"])
    total = 0.0
    q = 0
    vac = True
    for case in (caseA, caseB):
        r0, _, dt = _check(case)
        vac = vac and r0 == "sat"
        total += dt
        for alt in bad:
            r, sol, dt = _check(case + [alt])
            total += dt
            q += 1
            if r == "sat":
                w = sol.model().eval(s, model_completion=True).as_string()
                return SmtResult(status="sat", detail=f"float whose str() is {w!r} is generated as text that does not lex as one NUMBER", queries=q, solver_time_s=round(total, 3),
                                 replay={"func": "vf.harness.lexreplay:replay_float_text", "args": {"w": w}})
            if r != "unsat":
                return SmtResult(status="unknown", detail=f"solver {r}", queries=q, solver_time_s=round(total, 3))
    return SmtResult(status="unsat", detail="every generated float literal is one NUMBER token", queries=q + 2, solver_time_s=round(total, 3), vacuity_ok=vac,
                     samples=[{"language": "CPython short float repr (fixed | exponent)", "generator_shape": shape, "must_be": "single NUMBER token",
                               "rules_in_order": [n for n, _, _ in rules]}])


def q_int_repr():
    try:
        rules, literals, ignore, remap = _rules_re()
    except Untranslatable as ex:
        return SmtResult(status="not_encoded", detail=str(ex))
    s = z3.String("s")
    bad = single_token_constraints(s, "INT", rules, [" ", "\n", "]", ":"])
    total = 0.0
    q = 0
    r0, _, dt = _check([z3.InRe(s, INTREPR)])
    for alt in bad:
        r, sol, dt = _check([z3.InRe(s, INTREPR), alt])
        total += dt
        q += 1
        if r == "sat":
            w = sol.model().eval(s, model_completion=True).as_string()
            return SmtResult(status="sat", detail=f"str(int) {w!r} does not lex as one INT", queries=q, solver_time_s=round(total, 3),
                             replay={"func": "vf.harness.lexreplay:replay_int_text", "args": {"w": w}})
        if r != "unsat":
            return SmtResult(status="unknown", detail=f"solver {r}", queries=q, solver_time_s=round(total, 3))
    return SmtResult(status="unsat", detail="every str(int) is one INT token", queries=q + 1, solver_time_s=round(total, 3), vacuity_ok=(r0 == "sat"),
                     samples=[{"language": "-?(0|[1-9][0-9]*)", "must_be": "single INT token"}])


def q_identifier():
    """Every legal identifier (core/identifier.py: regex and reserved words) lexes as one IDENTIFIER token
    that is not remapped to a keyword -- except the keywords the lexer knows but the reserved list lacks,
    which is exactly what this query looks for."""
    try:
        rules, literals, ignore, remap = _rules_re()
    except Untranslatable as ex:
        return SmtResult(status="not_encoded", detail=str(ex))
    from jaqalpaq.core.identifier import valid_identifier_regex
    from jaqalpaq.utilities import RESERVED_WORDS
    pat = valid_identifier_regex.pattern.lstrip("^").rstrip("$")
    legal = rx(pat)
    s = z3.String("s")
    base = [z3.InRe(s, legal)] + [s != z3.StringVal(w) for w in RESERVED_WORDS]
    bad = single_token_constraints(s, "IDENTIFIER", rules, [" ", "\n", "[", "]"])
    total = 0.0
    q = 0
    r0, _, dt = _check(base)
    for alt in bad:
        r, sol, dt = _check(base + [alt])
        total += dt
        q += 1
        if r == "sat":
            w = sol.model().eval(s, model_completion=True).as_string()
            return SmtResult(status="sat", detail=f"legal identifier {w!r} does not lex as one IDENTIFIER", queries=q, solver_time_s=round(total, 3),
                             replay={"func": "vf.harness.lexreplay:replay_identifier", "args": {"w": w}})
        if r != "unsat":
            return SmtResult(status="unknown", detail=f"solver {r}", queries=q, solver_time_s=round(total, 3))
    # keywords: a legal identifier that the lexer remaps to a keyword token
    r, sol, dt = _check(base + [z3.Or(*[s == z3.StringVal(k) for k in remap])] if remap else [z3.BoolVal(False)])
    total += dt
    q += 1
    extra = {}
    if r == "sat":
        w = sol.model().eval(s, model_completion=True).as_string()
        return SmtResult(status="sat", detail=f"identifier {w!r} is legal for the builder but is a keyword for the lexer", queries=q, solver_time_s=round(total, 3),
                         replay={"func": "vf.harness.lexreplay:replay_identifier", "args": {"w": w}})
    return SmtResult(status="unsat", detail="every legal identifier is one IDENTIFIER token, none is a keyword", queries=q + 1, solver_time_s=round(total, 3),
                     vacuity_ok=(r0 == "sat"), samples=[{"language": pat, "minus": list(RESERVED_WORDS), "keywords": sorted(remap)}])


# ---------------------------------------------------------------------------------------
# C02 lexer-level queries

def q_comments():
    """Block comments are non-nesting and end at the first '*/'; line comments end at the newline;
    no rule matches the empty string."""
    try:
        rules, literals, ignore, remap = _rules_re()
    except Untranslatable as ex:
        return SmtResult(status="not_encoded", detail=str(ex))
    byname = {n: r for n, p, r in rules}
    if "ignore_multiline_comment" not in byname or "ignore_comment" not in byname:
        return SmtResult(status="unknown", detail="comment rules not found")
    mlc, lc = byname["ignore_multiline_comment"], byname["ignore_comment"]
    s = z3.String("s")
    t = z3.String("t")
    total = 0.0
    q = 0
    checks = [
        # prefix-free: the comment matched at a position is unique, hence ends at the first terminator
        ("a block comment can extend past a '*/' (the pattern matches both a string and a proper prefix of it)",
         [z3.InRe(s, mlc), z3.InRe(t, mlc), z3.PrefixOf(t, s), t != s], "comment_swallow"),
        ("a block comment contains '*/' before its end",
         [z3.InRe(s, mlc), z3.Contains(z3.SubString(s, 2, z3.Length(s) - 3), z3.StringVal("*/"))], "comment_swallow"),
        ("some '/*' w '*/' with w free of '*/' is not a block comment",
         [s == z3.Concat(z3.StringVal("/*"), t, z3.StringVal("*/")), z3.Not(z3.Contains(z3.Concat(t, z3.StringVal("*")), z3.StringVal("*/"))), z3.Not(z3.InRe(s, mlc)), z3.Length(t) <= 6], "comment_missing"),
        ("a line comment runs past a newline", [z3.InRe(s, lc), z3.Contains(s, z3.StringVal("\n"))], "line_comment"),
        ("some '//' w without newline is not a line comment",
         [s == z3.Concat(z3.StringVal("//"), t), z3.Not(z3.Contains(t, z3.StringVal("\n"))), z3.Not(z3.InRe(s, lc)), z3.Length(t) <= 6], "line_comment"),
    ]
    for n, p, r in rules:
        checks.append((f"rule {n} matches the empty string", [z3.InRe(z3.StringVal(""), r)], "empty"))
    for what, cons, kind in checks:
        r, sol, dt = _check(cons)
        total += dt
        q += 1
        if r == "sat":
            m = sol.model()
            w = m.eval(s, model_completion=True).as_string()
            return SmtResult(status="sat", detail=f"{what}: {w!r}", queries=q, solver_time_s=round(total, 3),
                             replay={"func": "vf.harness.lexreplay:replay_comment", "args": {"w": w, "kind": kind}})
        if r != "unsat":
            return SmtResult(status="unknown", detail=f"solver {r} on: {what}", queries=q, solver_time_s=round(total, 3))
    rt, _, _ = _check([z3.InRe(s, mlc), z3.Length(s) > 6])
    return SmtResult(status="unsat", detail="block comments are prefix-free and complete, line comments stop at newline, no rule matches ''", queries=q + 1,
                     solver_time_s=round(total, 3), vacuity_ok=(rt == "sat"), samples=[{"rule": n, "pattern": p} for n, p, _ in rules])


def q_keywords():
    """Exactly the keywords are remapped, and each keyword string is an IDENTIFIER-rule match (so the
    remapping applies)."""
    try:
        rules, literals, ignore, remap = _rules_re()
    except Untranslatable as ex:
        return SmtResult(status="not_encoded", detail=str(ex))
    want = {"register": "REG", "map": "MAP", "let": "LET", "macro": "MACRO", "loop": "LOOP", "import": "IMPORT", "usepulses": "USEPULSES",
            "from": "FROM", "as": "AS", "branch": "BRANCH", "subcircuit": "SUBCIRCUIT"}
    if remap != want:
        diff = sorted(set(remap.items()) ^ set(want.items()))
        w = diff[0][0]
        return SmtResult(status="sat", detail=f"keyword table differs: {diff}", queries=0,
                         replay={"func": "vf.harness.lexreplay:replay_keyword", "args": {"w": w, "token": want.get(w)}})
    s = z3.String("s")
    total = 0.0
    q = 0
    for kw in want:
        bad = single_token_constraints(s, "IDENTIFIER", rules, [" ", "\n"])
        r, sol, dt = _check([s == z3.StringVal(kw), z3.Or(*bad)])
        total += dt
        q += 1
        if r != "unsat":
            return SmtResult(status="sat" if r == "sat" else "unknown", detail=f"keyword {kw!r} is not matched by the IDENTIFIER rule", queries=q,
                             replay={"func": "vf.harness.lexreplay:replay_keyword", "args": {"w": kw, "token": want[kw]}})
    return SmtResult(status="unsat", detail="keywords and only keywords are remapped", queries=q, solver_time_s=round(total, 3),
                     samples=[{"keywords": sorted(want)}])


# ---------------------------------------------------------------------------------------
# token classes: what the live lexer produces as exactly one token T == the reference class of T

def reference_classes():
    """Token classes written from the language description (unbounded length)."""
    alpha = z3.Union(z3.Range("a", "z"), z3.Range("A", "Z"), S("_"))
    alnum = z3.Union(alpha, D)
    ident_tail = z3.Star(z3.Concat(z3.Option(S(".")), alnum))
    ident = z3.Concat(alpha, ident_tail)
    sign = z3.Option(z3.Union(S("+"), S("-")))
    integer = z3.Concat(sign, z3.Plus(D))
    # a number has an integer part, a fraction and an optional exponent ('.5' is not specified)
    number = z3.Concat(sign, z3.Plus(D), S("."), z3.Plus(D), z3.Option(z3.Concat(z3.Union(S("e"), S("E")), sign, z3.Plus(D))))
    dotident = z3.Concat(S("."), z3.Option(ident))
    binint = z3.Concat(S("'"), z3.Plus(z3.Union(S("0"), S("1"))), S("'"))
    return {"IDENTIFIER": ident, "INT": integer, "NUMBER": number, "DOTIDENTIFIER": dotident, "BININT": binint, "NL": z3.Plus(S("\n"))}


def q_classes():
    """For every token class T: every string of the reference class is lexed by the live rules as exactly
    one token T (first-match over the ordered rules, not running into a following delimiter), and every
    string the live rule T matches on its own (no earlier rule matching a prefix) belongs to the reference
    class -- numbers without integer part excepted (not specified)."""
    try:
        rules, literals, ignore, remap = _rules_re()
    except Untranslatable as ex:
        return SmtResult(status="not_encoded", detail=str(ex))
    ref = reference_classes()
    delims = {"IDENTIFIER": [" ", "\n", "[", "]", ";"], "INT": [" ", "\n", "]", ":"], "NUMBER": [" ", "\n", ";"], "DOTIDENTIFIER": [" "], "BININT": [":", " "], "NL": [" ", "a"]}
    s = z3.String("s")
    total = 0.0
    q = 0
    byname = {n: r for n, p, r in rules}
    nodot = z3.Complement(z3.Concat(z3.Option(z3.Union(S("+"), S("-"))), S("."), SIGMA_STAR))
    for tok, R_ in ref.items():
        if tok not in byname:
            return SmtResult(status="sat", detail=f"lexer has no rule {tok}", replay={"func": "vf.harness.lexreplay:replay_token_class", "args": {"w": "a", "token": tok}})
        # (1) reference class  =>  exactly one token tok
        bad = single_token_constraints(s, tok, rules, delims[tok])
        for alt in bad:
            r, sol, dt = _check([z3.InRe(s, R_), alt])
            total += dt
            q += 1
            if r == "sat":
                w = sol.model().eval(s, model_completion=True).as_string()
                return SmtResult(status="sat", detail=f"{w!r} belongs to the class {tok} but is not lexed as one {tok} token", queries=q, solver_time_s=round(total, 3),
                                 replay={"func": "vf.harness.lexreplay:replay_token_class", "args": {"w": w, "token": tok}})
            if r != "unsat":
                return SmtResult(status="unknown", detail=f"solver {r} ({tok})", queries=q, solver_time_s=round(total, 3))
        # (2) the live rule, when it is the first to match, only produces strings of the class
        earlier = []
        for name, pat, rr in rules:
            if name == tok:
                break
            earlier.append(z3.Not(z3.InRe(s, z3.Concat(rr, SIGMA_STAR))))
        cons = [z3.InRe(s, byname[tok]), z3.Not(z3.InRe(s, R_))] + earlier
        if tok == "NUMBER":
            cons.append(z3.InRe(s, nodot))
        r, sol, dt = _check(cons)
        total += dt
        q += 1
        if r == "sat":
            w = sol.model().eval(s, model_completion=True).as_string()
            return SmtResult(status="sat", detail=f"the lexer makes a {tok} token of {w!r}, which is not in the class", queries=q, solver_time_s=round(total, 3),
                             replay={"func": "vf.harness.lexreplay:replay_token_class", "args": {"w": w, "token": None}})
        if r != "unsat":
            return SmtResult(status="unknown", detail=f"solver {r} ({tok} converse)", queries=q, solver_time_s=round(total, 3))
    # literals: each is a single character no rule starts with... (a rule matching a literal would shadow it)
    for lit in sorted(literals):
        for name, pat, rr in rules:
            if name.startswith("ignore_"):
                continue
            r, sol, dt = _check([z3.InRe(z3.StringVal(lit), z3.Concat(rr, SIGMA_STAR)) if False else z3.InRe(s, rr), z3.PrefixOf(z3.StringVal(lit), s), z3.Length(s) == 1])
            total += dt
            q += 1
            if r == "sat":
                return SmtResult(status="sat", detail=f"rule {name} matches the literal {lit!r}", queries=q, solver_time_s=round(total, 3),
                                 replay={"func": "vf.harness.lexreplay:replay_token_class", "args": {"w": lit, "token": lit}})
    want_literals = set("<>|{};[],*:")
    if literals != want_literals:
        w = sorted(literals ^ want_literals)[0]
        return SmtResult(status="sat", detail=f"literal set differs: {sorted(literals ^ want_literals)}", queries=q,
                         replay={"func": "vf.harness.lexreplay:replay_token_class", "args": {"w": w, "token": w}})
    if set(ignore) != {" ", "\t"}:
        return SmtResult(status="sat", detail=f"ignored characters {ignore!r}", queries=q, replay={"func": "vf.harness.lexreplay:replay_token_class", "args": {"w": "a\tb", "token": None}})
    return SmtResult(status="unsat", detail="every token class of the live lexer equals its reference class (unbounded length); literals and ignored characters as specified",
                     queries=q, solver_time_s=round(total, 3), samples=[{"classes": sorted(ref), "literals": sorted(literals), "ignore": ignore}])



def _pumpable_member(r, length):
    """A member of L(r) of exactly `length` characters, found without asking the solver for a long model: z3 supplies a short
    member x; for its last character c the inclusion  x c*  subset of  L(r)  is decided as a regular-language query
    (unsat of: y in x c*  and  y not in L(r), y of unbounded length); the member is x followed by copies of c.
    Returns (member or None, number of queries (negative: no verdict), solver seconds)."""
    t0 = time.time()
    n = 0
    x = z3.String("short")
    status, sol, _ = _check([z3.InRe(x, r), z3.Length(x) >= 1, z3.Length(x) <= 3])
    n += 1
    if status != "sat":
        return None, (n if status == "unsat" else -n), time.time() - t0
    xs = sol.model().eval(x, model_completion=True).as_string()
    for c in [xs[-1]] + list("0123456789"):
        y = z3.String("long")
        status, _, _ = _check([z3.InRe(y, z3.Concat(S(xs), z3.Star(S(c)))), z3.Not(z3.InRe(y, r))])
        n += 1
        if status == "unsat":
            return xs + c * (length - len(xs)), n, time.time() - t0
        if status != "sat":
            return None, -n, time.time() - t0
    return None, n, time.time() - t0

def q_token_actions():
    """C16: no token action of the lexer lets a non-JaqalError escape, for token texts of ANY length.

    The actions of JaqalLexer (read from the live class) convert the matched text with int()/float().  Their
    exception contracts are modelled from the CPython documentation:
      int(s)          for s in [-+]?[0-9]+ : ValueError  <=>  number of digits > sys.get_int_max_str_digits() (if non-zero)
      int(s, base=2)  no limit (power-of-two base)
      float(s)        never raises on a string of the NUMBER language (overflow gives inf)
    For every unprotected conversion (not inside a try whose handler catches ValueError / Exception and raises a
    JaqalError) z3 is asked for a text of the token's language on which the contract says the conversion raises; the
    model is replayed through parse_jaqal_string."""
    import ast
    import inspect
    import sys
    import textwrap
    from jaqalpaq.parser.slyparse import JaqalLexer
    try:
        rules, literals, ignore, remap = _rules_re()
    except Untranslatable as ex:
        return SmtResult(status="not_encoded", detail=str(ex))
    limit = sys.get_int_max_str_digits() if hasattr(sys, "get_int_max_str_digits") else 0
    queries = 0
    st = 0.0
    samples = []
    for name, pat, r in rules:
        fn = JaqalLexer.__dict__.get(name)
        if not callable(fn):
            continue
        tree = ast.parse(textwrap.dedent(inspect.getsource(fn)))
        protected = set()
        for node in ast.walk(tree):
            if isinstance(node, ast.Try):
                catches = any(h.type is None or any(k in ast.unparse(h.type) for k in ("ValueError", "Exception")) for h in node.handlers)
                reraises = all(any(isinstance(x, ast.Raise) and x.exc is not None and "Jaqal" in ast.unparse(x.exc) for x in ast.walk(h)) or
                               not any(isinstance(x, ast.Raise) for x in ast.walk(h)) for h in node.handlers)
                if catches and reraises:
                    for b in node.body:
                        for x in ast.walk(b):
                            protected.add(id(x))
        for node in ast.walk(tree):
            if not (isinstance(node, ast.Call) and isinstance(node.func, ast.Name) and node.func.id in ("int", "float")):
                continue
            if id(node) in protected:
                samples.append({"token": name, "conversion": ast.unparse(node), "protected": True})
                continue
            if node.func.id == "float":
                samples.append({"token": name, "conversion": ast.unparse(node), "contract": "float() of a NUMBER text never raises"})
                continue
            base = None
            for kw in node.keywords:
                if kw.arg == "base":
                    base = ast.literal_eval(kw.value)
            if len(node.args) > 1:
                base = ast.literal_eval(node.args[1])
            if base in (2, 4, 8, 16, 32) or not limit:
                samples.append({"token": name, "conversion": ast.unparse(node), "contract": "no digit limit"})
                continue
            w, q_, dt = _pumpable_member(r, limit + 2)
            queries += q_
            st += dt
            if w is not None:
                return SmtResult(status="sat", detail=f"token {name}: {ast.unparse(node)} is unprotected and raises ValueError on a text of {len(w)} characters "
                                 f"(more than {limit} digits)", queries=queries, solver_time_s=round(st, 3),
                                 replay={"func": "vf.harness.lexreplay:replay_token_action", "args": {"w": w, "token": name}})
            if w is None and q_ < 0:
                return SmtResult(status="unknown", detail=f"token {name}: solver gave no verdict", queries=queries, solver_time_s=round(st, 3))
            samples.append({"token": name, "conversion": ast.unparse(node), "answer": "no text of the token language exceeds the digit limit"})
    # vacuity: the INT language does contain texts longer than the limit (the guard, not the language, is what protects)
    intr = [r for n, p, r in rules if n == "INT"]
    vac = True
    if intr and limit:
        w, q_, dt = _pumpable_member(intr[0], limit + 2)
        queries += abs(q_)
        st += dt
        vac = w is not None
    return SmtResult(status="unsat", detail="every int()/float() conversion in a token action is either total on its token language or guarded by a handler raising a JaqalError",
                     queries=queries, solver_time_s=round(st, 3), samples=samples, vacuity_ok=vac, extra={"int_max_str_digits": limit})
