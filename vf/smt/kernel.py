"""E4: small imperative kernels translated from the live source into SMT.

q_emulator_kernel: the per-gate loop body of UnitarySerializedEmulator._make_subcircuit, interpreted over
16-bit vectors, compared with the tensor-product specification.
q_normalise: ProbabilisticSubcircuit.__init__'s clip-and-renormalise, over the reals (QF_NRA).
"""
import ast
import inspect
import textwrap
import time

import z3

from ..jobs import SmtResult

W = 16


class Unsupported(Exception):
    pass


def bv(x):
    return z3.BitVecVal(x, W) if isinstance(x, int) else x


class Interp:
    """Mini-interpreter for the straight-line / bounded-loop subset used by the kernel."""

    def __init__(self, env, k):
        self.env = dict(env)
        self.k = k
        self.events = []
        self.pc = z3.BoolVal(True)
        self.zeroed = []      # buffers zeroed with  name[:] = 0

    def ev(self, e):
        if isinstance(e, ast.Constant) and isinstance(e.value, int):
            return bv(e.value)
        if isinstance(e, ast.Name):
            if e.id not in self.env:
                raise Unsupported(f"read of unassigned {e.id}")
            return self.env[e.id]
        if isinstance(e, ast.BinOp):
            a, b = self.ev(e.left), self.ev(e.right)
            op = type(e.op)
            if op is ast.BitAnd:
                return a & b
            if op is ast.BitOr:
                return a | b
            if op is ast.BitXor:
                return a ^ b
            if op is ast.LShift:
                return a << b
            if op is ast.RShift:
                return z3.LShR(a, b)
            if op is ast.Add:
                return a + b
            if op is ast.Sub:
                return a - b
            raise Unsupported(op.__name__)
        if isinstance(e, ast.UnaryOp) and isinstance(e.op, ast.Invert):
            return ~self.ev(e.operand)
        raise Unsupported(ast.dump(e)[:80])

    def assign(self, name, val):
        old = self.env.get(name)
        self.env[name] = val if (old is None or z3.is_true(self.pc)) else z3.If(self.pc, val, old)

    def run(self, stmts):
        for s in stmts:
            if isinstance(s, ast.Assign) and len(s.targets) == 1 and isinstance(s.targets[0], ast.Name):
                self.assign(s.targets[0].id, self.ev(s.value))
            elif isinstance(s, ast.AugAssign) and isinstance(s.target, ast.Name):
                b = ast.BinOp(left=ast.Name(id=s.target.id, ctx=ast.Load()), op=s.op, right=s.value)
                self.assign(s.target.id, self.ev(b))
            elif isinstance(s, ast.AugAssign) and isinstance(s.target, ast.Subscript):
                tgt = s.target
                if not isinstance(s.op, ast.Add):
                    raise Unsupported("accumulation is not +=")
                v = s.value
                if not (isinstance(v, ast.BinOp) and isinstance(v.op, ast.Mult)):
                    raise Unsupported("accumulated value is not a product")
                l, r = v.left, v.right
                if isinstance(l, ast.Subscript) and isinstance(l.value, ast.Name) and l.value.id == "dsub":
                    l, r = r, l
                if not (isinstance(l, ast.Subscript) and isinstance(r, ast.Subscript) and isinstance(r.value, ast.Name) and r.value.id == "dsub"):
                    raise Unsupported("operands of the product")
                if not (isinstance(r.slice, ast.Tuple) and len(r.slice.elts) == 2):
                    raise Unsupported("dsub subscript")
                row, col = r.slice.elts
                self.events.append((self.pc, tgt.value.id, self.ev(tgt.slice), l.value.id, self.ev(l.slice), self.ev(row), self.ev(col)))
            elif isinstance(s, ast.If) and not s.orelse:
                c = self.ev(s.test) != 0
                save = self.pc
                self.pc = z3.And(save, c)
                self.run(s.body)
                self.pc = save
            elif isinstance(s, ast.For) and isinstance(s.iter, ast.Name) and s.iter.id == "qind":
                for q in self.env["qind"]:
                    self.assign(s.target.id, q)
                    self.run(s.body)
            elif isinstance(s, ast.For) and ast.unparse(s.iter) == "range(dsub.shape[0])":
                for c in range(2 ** self.k):
                    self.assign(s.target.id, bv(c))
                    self.run(s.body)
            elif isinstance(s, ast.Expr) and isinstance(s.value, ast.Constant):
                pass
            else:
                raise Unsupported(ast.unparse(s)[:80])


def _locate():
    """Find, in the live source, the per-gate loop, the buffer swap, the zeroing and the row loop."""
    from jaqalpaq.emulator.unitary import UnitarySerializedEmulator
    src = textwrap.dedent(inspect.getsource(UnitarySerializedEmulator._make_subcircuit))
    fn = ast.parse(src).body[0]
    gate_loop = None
    for n in ast.walk(fn):
        if isinstance(n, ast.For) and isinstance(n.target, ast.Name) and n.target.id == "gate":
            gate_loop = n
    if gate_loop is None:
        raise Unsupported("per-gate loop not found")
    body = gate_loop.body
    swap = zero = rowloop = None
    qsrc = None
    for idx, s in enumerate(body):
        text = ast.unparse(s).replace(" ", "").replace("(", "").replace(")", "")
        if text == "inp,vec=vec,inp":
            swap = idx
        if text == "vec[:]=0":
            zero = idx
        if isinstance(s, ast.For) and isinstance(s.target, ast.Name) and s.target.id == "i":
            rowloop = s
            rl_idx = idx
    if swap is None or zero is None or rowloop is None or not (swap < zero < rl_idx):
        raise Unsupported("buffer swap / zeroing / row loop not found in the expected order")
    if ast.unparse(rowloop.iter) != "range(hilb_dim)":
        raise Unsupported("row loop does not range over hilb_dim")
    # everything between the zeroing and the row loop must be comments only
    for s in body[zero + 1:rl_idx]:
        if not (isinstance(s, ast.Expr) and isinstance(s.value, ast.Constant)):
            raise Unsupported("unexpected statement between zeroing and row loop: " + ast.unparse(s)[:60])
    # how qind is filled: qind.append(<expr of val>)
    for n in ast.walk(gate_loop):
        if isinstance(n, ast.Call) and ast.unparse(n.func) == "qind.append":
            qsrc = ast.unparse(n.args[0])
    # hilb_dim definition
    hd = None
    for n in ast.walk(fn):
        if isinstance(n, ast.Assign) and ast.unparse(n.targets[0]) == "hilb_dim":
            hd = ast.unparse(n.value)
    if hd is None or hd.replace(" ", "") != "2**n_qubits":
        raise Unsupported(f"hilb_dim = {hd}")
    return rowloop, qsrc, src


def q_emulator_kernel(k=1, nmax=8):
    t0 = time.time()
    try:
        rowloop, qsrc, src = _locate()
    except Unsupported as ex:
        return SmtResult(status="not_encoded", detail=f"kernel not encoded: {ex}")
    i = z3.BitVec("i", W)
    n = z3.BitVec("n", W)
    q = [z3.BitVec(f"q{t}", W) for t in range(k)]
    it = Interp({"i": i, "qind": q}, k)
    try:
        it.run(rowloop.body)
    except Unsupported as ex:
        return SmtResult(status="not_encoded", detail=f"kernel not encoded: statement outside the supported subset: {ex}")
    dom = [z3.ULE(1, n), z3.ULE(n, nmax), z3.ULT(i, bv(1) << n)]
    for a in q:
        dom.append(z3.ULT(a, n))
    if k > 1:
        dom.append(z3.Distinct(*q))

    def bit(x, p):
        return z3.LShR(x, p) & 1

    spec_row = bv(0)
    qmask = bv(0)
    for t in range(k):
        spec_row = spec_row | (bit(i, q[t]) << t)
        qmask = qmask | (bv(1) << q[t])
    if len(it.events) != 2 ** k:
        return SmtResult(status="sat", detail=f"{len(it.events)} accumulation events per row, expected {2 ** k}",
                         replay={"func": "vf.harness.kernel_replay:replay_kernel", "args": {"k": k, "n": k, "qubits": list(range(k))}}, queries=0)
    bad = []
    cols = []
    for pc, tb, ti, sb, j, row, col in it.events:
        c = z3.simplify(col)
        if not z3.is_bv_value(c):
            return SmtResult(status="unknown", detail="column index is not a constant per unrolled iteration")
        c = c.as_long()
        cols.append(c)
        spec_j = i & ~qmask
        for t in range(k):
            if (c >> t) & 1:
                spec_j = spec_j | (bv(1) << q[t])
        if tb != "vec" or sb != "inp":
            return SmtResult(status="sat", detail=f"accumulates into {tb} from {sb}, expected vec from inp",
                             replay={"func": "vf.harness.kernel_replay:replay_kernel", "args": {"k": k, "n": k, "qubits": list(range(k))}})
        bad.append(z3.Or(z3.Not(pc), ti != i, row != spec_row, j != spec_j))
    if sorted(cols) != list(range(2 ** k)):
        return SmtResult(status="sat", detail=f"columns visited {sorted(cols)}",
                         replay={"func": "vf.harness.kernel_replay:replay_kernel", "args": {"k": k, "n": k, "qubits": list(range(k))}})
    s = z3.Solver()
    s.add(*dom)
    # vacuity twin: the domain is satisfiable
    t1 = time.time()
    twin = s.check()
    s.add(z3.Or(*bad))
    r = s.check()
    st = time.time() - t1
    extra = {"qubit_source_expression": qsrc, "word_width": W, "nmax": nmax, "arity": k, "events": len(it.events)}
    if str(r) == "unsat":
        return SmtResult(status="unsat", detail=f"index kernel == tensor-product spec for n<={nmax}, k={k}", queries=2, solver_time_s=round(st, 3),
                         vacuity_ok=(str(twin) == "sat"), extra=extra,
                         samples=[{"query": "exists n,i,q: kernel(i,q,c) != spec(i,q,c)", "answer": "unsat", "n<=": nmax, "k": k}])
    if str(r) == "sat":
        m = s.model()
        nn = m.eval(n, model_completion=True).as_long()
        qs = [m.eval(a, model_completion=True).as_long() for a in q]
        ii = m.eval(i, model_completion=True).as_long()
        return SmtResult(status="sat", detail=f"kernel differs from the spec at n={nn} i={ii} qubits={qs}", queries=2, solver_time_s=round(st, 3),
                         replay={"func": "vf.harness.kernel_replay:replay_kernel", "args": {"k": k, "n": nn, "qubits": qs}}, extra=extra)
    return SmtResult(status="unknown", detail=str(r), queries=2, solver_time_s=round(st, 3))


# ---------------------------------------------------------------------------------------
# C15: clip and renormalise over the reals

def q_normalise(m=2):
    """Translate ProbabilisticSubcircuit.__init__ (numpy calls replaced by their element-wise models) and
    ask: is there a real input vector for which no RuntimeError is raised and yet a stored probability is
    negative or the stored probabilities do not sum to one?"""
    from jaqalpaq.core.result import ProbabilisticSubcircuit
    src = textwrap.dedent(inspect.getsource(ProbabilisticSubcircuit.__init__))
    fn = ast.parse(src).body[0]
    fail = float(ProbabilisticSubcircuit.CUTOFF_FAIL)
    warn = float(ProbabilisticSubcircuit.CUTOFF_WARN)
    if not (warn <= fail):
        return SmtResult(status="sat", detail="CUTOFF_WARN > CUTOFF_FAIL", replay={"func": "vf.harness.results:replay_normalise", "args": {"p": [0.5, 0.5]}})
    p = [z3.Real(f"p{i}") for i in range(m)]
    env = {}
    raised = z3.BoolVal(False)
    t0 = time.time()

    def lift(op, l, r):
        """element-wise binary operation with numpy's scalar broadcasting"""
        if isinstance(l, list) and isinstance(r, list):
            if len(l) != len(r):
                raise Unsupported("shape mismatch")
            return [op(x, y) for x, y in zip(l, r)]
        if isinstance(l, list):
            return [op(x, r) for x in l]
        if isinstance(r, list):
            return [op(l, y) for y in r]
        return op(l, r)

    nq = [0]

    def quotient(x, d):
        """x / d on the current path: a fresh variable q with q*d == x and d != 0 (division by zero is outside the model)"""
        nq[0] += 1
        qv = z3.Real(f"quot_{nq[0]}")
        side.append(z3.Implies(pc[0], z3.And(d != 0, qv * d == x)))
        side.append(z3.Implies(z3.Not(pc[0]), qv == x))
        return qv

    def zabs(x):
        return z3.If(x < 0, -x, x)

    def fold(v, pick):
        out = v[0]
        for x in v[1:]:
            out = z3.If(pick(x, out), x, out)
        return out

    def as_bool(c):
        if isinstance(c, bool):
            return z3.BoolVal(c)
        if z3.is_expr(c) and not z3.is_bool(c):
            return c != 0
        return c

    CMP = {ast.Gt: lambda x, y: x > y, ast.GtE: lambda x, y: x >= y, ast.Lt: lambda x, y: x < y, ast.LtE: lambda x, y: x <= y,
           ast.Eq: lambda x, y: x == y, ast.NotEq: lambda x, y: x != y}

    def ev(e):
        if isinstance(e, ast.JoinedStr):
            return None
        if isinstance(e, ast.Constant):
            if isinstance(e.value, bool):
                return z3.BoolVal(e.value)
            return z3.RealVal(repr(e.value)) if isinstance(e.value, (int, float)) else e.value
        if isinstance(e, ast.Name):
            if e.id == "probabilities":
                return p
            if e.id in env:
                return env[e.id]
            raise Unsupported("name " + e.id)
        if isinstance(e, ast.Attribute) and isinstance(e.value, ast.Name) and e.value.id == "self":
            if "self." + e.attr in env:
                return env["self." + e.attr]
            cv = getattr(ProbabilisticSubcircuit, e.attr, None)
            if isinstance(cv, (int, float)) and not isinstance(cv, bool):
                return z3.RealVal(repr(float(cv)))
            raise Unsupported("attribute self." + e.attr)
        if isinstance(e, ast.Call):
            f = ast.unparse(e.func)
            if any(k.arg not in ("dtype", "copy", "axis") for k in e.keywords):
                raise Unsupported("keyword argument in call " + f)
            if f in ("numpy.asarray", "numpy.array", "numpy.asfarray", "list", "tuple", "float", "numpy.float64", "numpy.copy", "numpy.real"):
                a0 = ev(e.args[0])
                return list(a0) if isinstance(a0, list) else a0
            meth = e.func.attr if isinstance(e.func, ast.Attribute) else None
            recv = None
            if meth in ("max", "min", "sum", "copy", "any", "all", "astype", "clip") and not (isinstance(e.func.value, ast.Name) and e.func.value.id == "numpy"):
                recv = ev(e.func.value)
            a = [ev(x) for x in e.args]
            if recv is not None:
                a = [recv] + (a if meth == "clip" else [])
                f = "numpy." + meth
            if f in ("numpy.copy", "numpy.astype"):
                return list(a[0])
            if f == "numpy.clip":
                lo, hi = a[1], a[2]
                one = lambda x: z3.If(x < lo, lo, z3.If(x > hi, hi, x))
                return [one(x) for x in a[0]] if isinstance(a[0], list) else one(a[0])
            if f in ("numpy.abs", "numpy.absolute", "numpy.fabs", "abs"):
                return [zabs(x) for x in a[0]] if isinstance(a[0], list) else zabs(a[0])
            if f in ("numpy.max", "numpy.amax") or (f == "max" and len(a) == 1):
                return fold(a[0], lambda x, o: x > o)
            if f in ("numpy.min", "numpy.amin") or (f == "min" and len(a) == 1):
                return fold(a[0], lambda x, o: x < o)
            if f in ("numpy.sum", "sum", "math.fsum"):
                return z3.Sum(a[0])
            if f in ("max", "numpy.maximum") and len(a) == 2:
                return lift(lambda x, y: z3.If(x > y, x, y), a[0], a[1])
            if f in ("min", "numpy.minimum") and len(a) == 2:
                return lift(lambda x, y: z3.If(x < y, x, y), a[0], a[1])
            if f == "numpy.any":
                return z3.Or(*[as_bool(x) for x in a[0]])
            if f == "numpy.all":
                return z3.And(*[as_bool(x) for x in a[0]])
            if f == "numpy.where" and len(a) == 3:
                cond = a[0]
                n_ = len(cond)
                x_ = a[1] if isinstance(a[1], list) else [a[1]] * n_
                y_ = a[2] if isinstance(a[2], list) else [a[2]] * n_
                return [z3.If(as_bool(c), x, y) for c, x, y in zip(cond, x_, y_)]
            if f == "len":
                return z3.RealVal(len(a[0]))
            raise Unsupported("call " + f)
        if isinstance(e, ast.BinOp):
            l, r = ev(e.left), ev(e.right)
            if isinstance(e.op, ast.Sub):
                return lift(lambda x, y: x - y, l, r)
            if isinstance(e.op, ast.Add):
                return lift(lambda x, y: x + y, l, r)
            if isinstance(e.op, ast.Mult):
                return lift(lambda x, y: x * y, l, r)
            if isinstance(e.op, ast.Div):
                return lift(quotient, l, r)
            raise Unsupported("binop " + type(e.op).__name__)
        if isinstance(e, ast.UnaryOp):
            v = ev(e.operand)
            if isinstance(e.op, ast.USub):
                return [-x for x in v] if isinstance(v, list) else -v
            if isinstance(e.op, ast.UAdd):
                return v
            if isinstance(e.op, ast.Not):
                return z3.Not(as_bool(v))
            raise Unsupported("unary " + type(e.op).__name__)
        if isinstance(e, ast.BoolOp):
            vs = [as_bool(ev(x)) for x in e.values]
            return z3.And(*vs) if isinstance(e.op, ast.And) else z3.Or(*vs)
        if isinstance(e, ast.IfExp):
            c = as_bool(ev(e.test))
            return lift(lambda x, y: z3.If(c, x, y), ev(e.body), ev(e.orelse))
        if isinstance(e, ast.Compare):
            terms = [ev(e.left)] + [ev(x) for x in e.comparators]
            parts = []
            for op, l, r in zip(e.ops, terms, terms[1:]):
                if type(op) not in CMP:
                    raise Unsupported("compare " + type(op).__name__)
                parts.append(lift(CMP[type(op)], l, r))
            if len(parts) == 1:
                return parts[0]
            if any(isinstance(x, list) for x in parts):
                raise Unsupported("chained vector comparison")
            return z3.And(*parts)
        raise Unsupported(ast.unparse(e)[:60])

    pc = [z3.BoolVal(True)]

    def merge(tname, val):
        old = env.get(tname)
        if old is not None and not z3.is_true(pc[0]):
            if isinstance(val, list) and isinstance(old, list) and len(val) == len(old):
                val = [z3.If(pc[0], v, o) for v, o in zip(val, old)]
            elif z3.is_expr(val) and z3.is_expr(old):
                val = z3.If(pc[0], val, old)
        env[tname] = val

    AUG = {ast.Div: quotient, ast.Mult: lambda x, y: x * y, ast.Add: lambda x, y: x + y, ast.Sub: lambda x, y: x - y}

    def run(stmts):
        nonlocal raised
        for s in stmts:
            text = ast.unparse(s)
            if isinstance(s, ast.Expr):
                if text.startswith("super().__init__") or isinstance(s.value, ast.Constant) or text.startswith(("warnings.warn", "warn(", "logging.", "logger.")):
                    continue
                raise Unsupported(text[:60])
            if isinstance(s, (ast.Import, ast.ImportFrom, ast.Pass)):
                continue
            if isinstance(s, ast.Assign) and len(s.targets) == 1 and isinstance(s.targets[0], (ast.Name, ast.Attribute)):
                merge(ast.unparse(s.targets[0]), ev(s.value))
            elif isinstance(s, ast.AnnAssign) and s.value is not None:
                merge(ast.unparse(s.target), ev(s.value))
            elif isinstance(s, ast.AugAssign) and type(s.op) in AUG and isinstance(s.target, (ast.Name, ast.Attribute)):
                tname = ast.unparse(s.target)
                d = ev(s.value)
                cur = env[tname] if tname in env else ev(s.target)
                new = lift(AUG[type(s.op)], cur, d)
                if type(s.op) is ast.Div:
                    env[tname] = new        # the quotient variables already equal the old value off this path
                else:
                    merge(tname, new)
            elif isinstance(s, ast.If):
                c = as_bool(ev(s.test))
                save = pc[0]
                pc[0] = z3.And(save, c)
                run(s.body)
                pc[0] = save
                if s.orelse:
                    pc[0] = z3.And(save, z3.Not(c))
                    run(s.orelse)
                    pc[0] = save
            elif isinstance(s, ast.Raise):
                raised = z3.Or(raised, pc[0])
            elif isinstance(s, ast.Assert):
                raised = z3.Or(raised, z3.And(pc[0], z3.Not(as_bool(ev(s.test)))))
            else:
                raise Unsupported(text[:60])

    side = []
    try:
        run(fn.body)
    except Unsupported as ex:
        return SmtResult(status="not_encoded", detail=f"normalisation not encoded: {ex}")
    stored = env.get("self._probabilities")
    if not isinstance(stored, list):
        return SmtResult(status="unknown", detail="self._probabilities not assigned a vector")
    s = z3.Solver()
    s.set("timeout", 240000)
    s.add(*side)
    twin = s.check()
    s.add(z3.Not(raised))
    # division by zero total is outside the model (numpy yields nan/inf): require that path to raise or exclude it
    s.add(z3.Or(z3.Sum(stored) != 1, *[x < 0 for x in stored]))
    t1 = time.time()
    r = s.check()
    st = time.time() - t1
    if str(r) == "unsat":
        return SmtResult(status="unsat", detail=f"for all real inputs of length {m}: RuntimeError, or stored probabilities >= 0 and sum to 1", queries=2,
                         solver_time_s=round(st, 3), vacuity_ok=(str(twin) == "sat"), extra={"outcomes": m, "CUTOFF_FAIL": fail, "CUTOFF_WARN": warn},
                         samples=[{"query": "exists p in R^m: not raised and (sum(stored) != 1 or some stored < 0)", "answer": "unsat", "m": m}])
    if str(r) == "sat":
        mod = s.model()
        vals = []
        for x in p:
            v = mod.eval(x, model_completion=True)
            vals.append(float(v.numerator_as_long()) / float(v.denominator_as_long()) if z3.is_rational_value(v) else float(v.approx(20).as_fraction()))
        return SmtResult(status="sat", detail=f"input {vals}: accepted without RuntimeError but not a normalised distribution", queries=2, solver_time_s=round(st, 3),
                         replay={"func": "vf.harness.results:replay_normalise", "args": {"p": vals}})
    return SmtResult(status="unknown", detail=str(r), queries=2, solver_time_s=round(st, 3))
