"""E3: bounded language equivalence between the productions of the live sly parser and the reference
grammar, by a CYK encoding in z3 (all token strings up to length N are one query)."""
import time

import z3

from ..jobs import SmtResult
from ..spec.jaqal_grammar import build_reference


from ..spec.cfg import to_cnf  # noqa: E402


def cyk(G, nts, start, nullable_start, toks, terms, L, tag):
    N = len(toks)
    T = {}
    cons = []

    def var(A, i, l):
        k = (A, i, l)
        if k not in T:
            T[k] = z3.Bool(f"{tag}_{A}_{i}_{l}")
        return T[k]

    tid = {t: i for i, t in enumerate(terms)}
    for l in range(1, N + 1):
        for i in range(0, N - l + 1):
            for A in nts:
                alts = []
                for r in G[A]:
                    if len(r) == 1:
                        if l == 1 and r[0] in tid:
                            alts.append(toks[i] == tid[r[0]])
                    else:
                        B, C = r
                        for k in range(1, l):
                            if B in nts:
                                b = var(B, i, k)
                            else:
                                if k != 1 or B not in tid:
                                    continue
                                b = toks[i] == tid[B]
                            if C in nts:
                                c = var(C, i + k, l - k)
                            else:
                                if l - k != 1 or C not in tid:
                                    continue
                                c = toks[i + k] == tid[C]
                            alts.append(z3.And(b, c))
                cons.append(var(A, i, l) == (z3.Or(*alts) if alts else z3.BoolVal(False)))
    acc = z3.Or(*([z3.And(L == l, var(start, 0, l)) for l in range(1, N + 1)] + ([L == 0] if nullable_start else [])))
    return acc, cons


def live_grammar():
    from jaqalpaq.parser.slyparse import JaqalParser
    g = JaqalParser._grammar
    terms = sorted(x for x in g.Terminals if x != "error")
    prods = [(p.name, tuple(p.prod)) for p in g.Productions[1:]]
    lr = JaqalParser._lrtable
    conflicts = list(getattr(lr, "sr_conflicts", [])) + list(getattr(lr, "rr_conflicts", []))
    return terms, prods, g.Productions[0].prod[0] if g.Productions[0].prod else "start", conflicts


def q_conflicts():
    terms, prods, start, conflicts = live_grammar()
    if conflicts:
        return SmtResult(status="sat", detail=f"LALR table has conflicts: {conflicts[:3]}", queries=0,
                         replay={"func": "vf.harness.lexreplay:replay_conflicts", "args": {}})
    return SmtResult(status="unsat", detail="no shift/reduce or reduce/reduce conflicts: the table-driven parser accepts exactly L(productions)",
                     queries=1, samples=[{"productions": len(prods), "terminals": len(terms)}])


def q_equiv(N=10):
    terms, sly, start, conflicts = live_grammar()
    ref = build_reference()
    ref_terms = {x for _, r in ref for x in r} - {l for l, _ in ref}
    missing = sorted(ref_terms - set(terms))
    allterms = sorted(set(terms) | ref_terms)
    G1, n1, e1 = to_cnf(sly, start)
    G2, n2, e2 = to_cnf(ref, "start")
    toks = [z3.Int(f"t{i}") for i in range(N)]
    L = z3.Int("L")
    s = z3.Solver()
    for t in toks:
        s.add(0 <= t, t < len(allterms))
    s.add(0 <= L, L <= N)
    t0 = time.time()
    a1, c1 = cyk(G1, n1, start, e1, toks, allterms, L, "A")
    a2, c2 = cyk(G2, n2, "start", e2, toks, allterms, L, "B")
    s.add(*c1)
    s.add(*c2)
    enc = time.time() - t0
    # vacuity twin: both grammars accept some string of the maximal length
    s.push()
    s.add(a1, a2, L == N)
    twin = str(s.check())
    s.pop()
    s.add(a1 != a2)
    t1 = time.time()
    r = str(s.check())
    st = time.time() - t1
    extra = {"N": N, "terminals": len(allterms), "sly_productions": len(sly), "reference_productions": len(ref), "encode_s": round(enc, 1),
             "strings_covered": sum(len(allterms) ** k for k in range(N + 1))}
    if r == "unsat":
        return SmtResult(status="unsat", detail=f"L(sly productions) == L(reference grammar) on all token strings of length <= {N}", queries=2,
                         solver_time_s=round(st, 2), vacuity_ok=(twin == "sat"), extra=extra,
                         samples=[{"query": f"exists token string w, |w| <= {N}: sly accepts w xor reference accepts w", "answer": "unsat", "alphabet": allterms}])
    if r == "sat":
        m = s.model()
        n = m[L].as_long()
        w = [allterms[m.eval(t, model_completion=True).as_long()] for t in toks[:n]]
        sa = z3.is_true(m.eval(a1))
        ra = z3.is_true(m.eval(a2))
        return SmtResult(status="sat", detail=f"token string {w}: sly productions {'accept' if sa else 'reject'}, reference {'accepts' if ra else 'rejects'}",
                         queries=2, solver_time_s=round(st, 2), extra=extra,
                         replay={"func": "vf.harness.lexreplay:replay_tokens", "args": {"tokens": w, "ref_accepts": ra}})
    return SmtResult(status="unknown", detail=r, queries=2, solver_time_s=round(st, 2), extra=extra)
