"""Renderers: S-expression program -> Jaqal text (own printer, independent of jaqalpaq's
generator), -> object-oriented CircuitBuilder calls."""


def fmt_num(v):
    if isinstance(v, bool):
        raise ValueError(v)
    if isinstance(v, int):
        return str(v)
    r = repr(float(v))
    if "e" in r or "E" in r or "inf" in r or "nan" in r:
        # fixed notation the lexer's NUMBER pattern is certain to accept
        r = format(float(v), ".12f")
    return r


def fmt_val(v):
    if v is None:
        return ""
    if isinstance(v, str):
        return v
    return fmt_num(v)


def fmt_arg(a):
    if isinstance(a, (list, tuple)):
        return f"{a[1]}[{fmt_val(a[2])}]"
    return fmt_val(a)


def to_text(sx, sep="\n", psep=" | ", open_pad=" ", close_pad=" ", tail="\n"):
    """Print a program.  `sep` separates sequential statements, `psep` parallel branches."""

    def stmt(st):
        k = st[0]
        if k == "let":
            return f"let {st[1]} {fmt_val(st[2])}"
        if k == "register":
            return f"register {st[1]}[{fmt_val(st[2])}]"
        if k == "map":
            if len(st) == 3:
                return f"map {st[1]} {st[2]}"
            if len(st) == 4:
                return f"map {st[1]} {st[2]}[{fmt_val(st[3])}]"
            a, b, c = st[3], st[4], st[5]
            s = f"{fmt_val(a)}:{fmt_val(b)}"
            if c is not None:
                s += f":{fmt_val(c)}"
            return f"map {st[1]} {st[2]}[{s}]"
        if k == "usepulses":
            return f"from {st[1]} usepulses *"
        if k == "macro":
            return "macro " + " ".join(list(st[1:-1])) + " " + stmt(st[-1])
        if k == "gate":
            return " ".join([st[1]] + [fmt_arg(a) for a in st[2:]])
        if k == "loop":
            return f"loop {fmt_val(st[1])} " + stmt(st[2])
        if k == "sequential_block":
            return "{" + open_pad + sep.join(stmt(s) for s in st[1:]) + close_pad + "}"
        if k == "parallel_block":
            return "<" + open_pad + psep.join(stmt(s) for s in st[1:]) + close_pad + ">"
        if k == "subcircuit_block":
            c = "" if st[1] in ("", None) else fmt_val(st[1]) + " "
            return "subcircuit " + c + "{" + open_pad + sep.join(stmt(s) for s in st[2:]) + close_pad + "}"
        raise ValueError(k)

    return sep.join(stmt(s) for s in sx[1:]) + tail


def to_builder(sx, native_gates=None):
    """Drive the object-oriented CircuitBuilder API with the program; returns the builder."""
    from jaqalpaq.core.circuitbuilder import CircuitBuilder, SequentialBlockBuilder, ParallelBlockBuilder, SubcircuitBlockBuilder

    cb = CircuitBuilder(native_gates=native_gates)

    def arg(a):
        return tuple(a) if isinstance(a, (list, tuple)) else a

    def fill(bb, stmts):
        for st in stmts:
            k = st[0]
            if k == "gate":
                bb.gate(st[1], *[arg(a) for a in st[2:]])
            elif k == "loop":
                inner = block_builder(st[2])
                bb.loop(st[1], inner, unevaluated=True)
            elif k in ("sequential_block", "parallel_block"):
                nb = bb.block(parallel=(k == "parallel_block"))
                fill(nb, st[1:])
            elif k == "subcircuit_block":
                nb = SubcircuitBlockBuilder(None if st[1] in ("", None) else st[1])
                if st[1] in ("", None):
                    nb.expression[1] = ""
                fill(nb, st[2:])
                bb.expression.append(nb.expression)
            else:
                raise ValueError(k)

    def block_builder(st):
        k = st[0]
        if k == "sequential_block":
            nb = SequentialBlockBuilder()
            fill(nb, st[1:])
        elif k == "parallel_block":
            nb = ParallelBlockBuilder()
            fill(nb, st[1:])
        else:
            raise ValueError(k)
        return nb

    for st in sx[1:]:
        k = st[0]
        if k == "let":
            cb.let(st[1], st[2], unevaluated=True)
        elif k == "register":
            cb.register(st[1], st[2], unevaluated=True)
        elif k == "map":
            if len(st) == 3:
                cb.map(st[1], st[2], unevaluated=True)
            elif len(st) == 4:
                cb.map(st[1], st[2], st[3], unevaluated=True)
            else:
                cb.map(st[1], st[2], slice(st[3], st[4], st[5]), unevaluated=True)
        elif k == "macro":
            cb.macro(st[1], list(st[2:-1]), block_builder(st[-1]), unevaluated=True)
        elif k == "usepulses":
            cb.usepulses(st[1], all, unevaluated=True)
        else:
            fill(cb, [st])
    return cb
