"""Reference semantics ("gate-level meaning") written from the property statements only.

Two independent readers produce the same canonical tree:

  ref_meaning(sexpr, overrides)   -- from a program given as an S-expression (the neutral
                                     program representation: what the parser emits and the
                                     builder consumes), by lexical scoping and call-by-
                                     substitution; never calls a jaqalpaq algorithm;
  impl_meaning(circuit, overrides) -- from a jaqalpaq Circuit, through its public attributes
                                     only, with its own substitution and alias arithmetic.

Canonical tree:
  ("g", name, (arg, ...))   arg = ("q", register, index) | ("n", number) | ("r", (elements...))
  ("seq", [..]) ("par", [..]) ("loop", n, [..]) ("sub", n, [..])
normalised so that same-kind nested blocks are flattened, empty plain blocks dropped and
single-child plain blocks collapsed (the rewrites a pass may make without changing meaning).
"""


class Invalid(Exception):
    """The program contains a reference that cannot be honoured (C14) or is malformed."""


# ---------------------------------------------------------------------------------------
# numbers

def as_index(v, what="index"):
    """An index / count must be integral (an integral float counts as the integer)."""
    if isinstance(v, bool):
        raise Invalid(f"{what} is not a number")
    if isinstance(v, int):
        return v
    if isinstance(v, float) and v == int(v):
        return int(v)
    raise Invalid(f"{what} {v!r} is not integral")


# ---------------------------------------------------------------------------------------
# reference reader: S-expressions

class RefEnv:
    def __init__(self):
        self.lets = {}      # name -> number
        self.regs = {}      # name -> ("r", ((reg, i), ...)) | ("q", reg, i)
        self.macros = {}    # name -> (params, block)
        self.order = []     # declaration order of header names
        self.fundamental = {}  # name -> size


def _slice_elems(src, start, stop, step):
    n = len(src)
    start = 0 if start is None else as_index(start, "slice start")
    stop = n if stop is None else as_index(stop, "slice stop")
    step = 1 if step is None else as_index(step, "slice step")
    if step == 0:
        raise Invalid("slice step 0")
    out = []
    k = start
    while (step > 0 and k < stop) or (step < 0 and k > stop):
        if not (0 <= k < n):
            raise Invalid(f"slice element {k} outside source of size {n}")
        out.append(src[k])
        k += step
    if step > 0 and stop > n:
        raise Invalid("slice stop beyond source")
    return tuple(out)


def ref_env(sx, overrides=None):
    """Process the header statements and macro definitions; returns (env, body statements)."""
    overrides = overrides or {}
    if not (isinstance(sx, (list, tuple)) and sx and sx[0] == "circuit"):
        raise Invalid("not a circuit")
    env = RefEnv()
    body = []

    def num(x, what):
        if isinstance(x, str):
            if x not in env.lets:
                raise Invalid(f"undefined constant {x}")
            return env.lets[x]
        return x

    def declare(name):
        if name in env.lets or name in env.regs:
            raise Invalid(f"{name} defined twice")
        env.order.append(name)

    for st in sx[1:]:
        kind = st[0]
        if kind == "let":
            _, name, value = st
            declare(name)
            env.lets[name] = overrides.get(name, value)
        elif kind == "register":
            _, name, size = st
            declare(name)
            size = as_index(num(size, "register size"), "register size")
            if size <= 0:
                raise Invalid("register size <= 0")
            env.regs[name] = ("r", tuple((name, i) for i in range(size)))
            env.fundamental[name] = size
        elif kind == "map":
            name, src = st[1], st[2]
            if src not in env.regs:
                raise Invalid(f"map source {src} undefined")
            s = env.regs[src]
            declare(name)
            if len(st) == 3:
                env.regs[name] = s
            else:
                if s[0] != "r":
                    raise Invalid(f"indexing {src}, which is not a register")
                if len(st) == 4:
                    i = as_index(num(st[3], "index"))
                    if not (0 <= i < len(s[1])):
                        raise Invalid(f"index {i} outside {src}")
                    env.regs[name] = ("q",) + s[1][i]
                else:
                    a, b, c = (None if x is None else num(x, "slice bound") for x in st[3:6])
                    env.regs[name] = ("r", _slice_elems(s[1], a, b, c))
        elif kind == "macro":
            name, params, block = st[1], list(st[2:-1]), st[-1]
            if name in env.macros:
                raise Invalid(f"macro {name} defined twice")
            if len(set(params)) != len(params):
                raise Invalid("duplicate macro parameter")
            env.macros[name] = (params, block)
        elif kind == "usepulses":
            pass
        else:
            body.append(st)
    return env, body


def _ref_arg(env, sc, a):
    if isinstance(a, (list, tuple)) and len(a) == 3 and a[0] == "array_item":
        _, base, idx = a
        if base in sc:
            b = sc[base]
        elif base in env.regs:
            b = env.regs[base]
        else:
            raise Invalid(f"undefined register {base}")
        if b[0] != "r":
            raise Invalid(f"indexing {base}, which is not a register")
        if isinstance(idx, str):
            if idx in sc:
                iv = sc[idx]
            elif idx in env.lets:
                iv = ("n", env.lets[idx])
            else:
                raise Invalid(f"undefined index {idx}")
            if iv[0] != "n":
                raise Invalid("index is not a number")
            i = as_index(iv[1])
        else:
            i = as_index(idx)
        if not (0 <= i < len(b[1])):
            raise Invalid(f"index {i} outside {base} (size {len(b[1])})")
        return ("q",) + b[1][i]
    if isinstance(a, str):
        if a in sc:
            return sc[a]
        if a in env.lets:
            return ("n", env.lets[a])
        if a in env.regs:
            return env.regs[a]
        raise Invalid(f"undefined identifier {a}")
    if isinstance(a, bool) or not isinstance(a, (int, float)):
        raise Invalid(f"bad argument {a!r}")
    return ("n", a)


def _ref_count(env, sc, c, what):
    if isinstance(c, str):
        if c in sc:
            v = sc[c]
        elif c in env.lets:
            v = ("n", env.lets[c])
        else:
            raise Invalid(f"undefined {what} {c}")
        if v[0] != "n":
            raise Invalid(f"{what} is not a number")
        return as_index(v[1], what)
    return as_index(c, what)


def _ref_stmt(env, sc, st, depth=0):
    if depth > 40:
        raise Invalid("macro recursion")
    kind = st[0]
    if kind == "gate":
        name, args = st[1], st[2:]
        vals = tuple(_ref_arg(env, sc, a) for a in args)
        if name in env.macros:
            params, block = env.macros[name]
            if len(params) != len(vals):
                raise Invalid(f"macro {name} called with {len(vals)} arguments, takes {len(params)}")
            # call-by-substitution; only macros defined *before* this one's definition are visible inside,
            # which holds by construction of the programs (a body can only name earlier macros).
            return _ref_stmt(env, dict(zip(params, vals)), block, depth + 1)
        return ("g", name, vals)
    if kind == "loop":
        return ("loop", _ref_count(env, sc, st[1], "loop count"), [_ref_stmt(env, sc, st[2], depth)])
    if kind == "sequential_block":
        return ("seq", [_ref_stmt(env, sc, s, depth) for s in st[1:]])
    if kind == "parallel_block":
        return ("par", [_ref_stmt(env, sc, s, depth) for s in st[1:]])
    if kind == "subcircuit_block":
        n = 1 if st[1] in ("", None) else _ref_count(env, sc, st[1], "subcircuit count")
        return ("sub", n, [_ref_stmt(env, sc, s, depth) for s in st[2:]])
    raise Invalid(f"unsupported statement {kind}")


def ref_meaning(sx, overrides=None):
    env, body = ref_env(sx, overrides)
    # macro bodies must be well-formed even if never called: evaluate each with opaque parameters
    for name, (params, block) in env.macros.items():
        _check_macro_body(env, name, params, block)
    return norm(("seq", [_ref_stmt(env, {}, s) for s in body]))


def _check_macro_body(env, name, params, block):
    def walk(st):
        k = st[0]
        if k == "gate":
            for a in st[2:]:
                if isinstance(a, str):
                    if a not in params and a not in env.lets and a not in env.regs:
                        raise Invalid(f"undefined identifier {a} in macro {name}")
                elif isinstance(a, (list, tuple)):
                    base, idx = a[1], a[2]
                    if base not in params and base not in env.regs:
                        raise Invalid(f"undefined register {base} in macro {name}")
                    if isinstance(idx, str) and idx not in params and idx not in env.lets:
                        raise Invalid(f"undefined index {idx} in macro {name}")
                    base_is_param = base in params
                    idx_is_param = isinstance(idx, str) and idx in params
                    if not base_is_param and not idx_is_param:
                        _ref_arg(env, {}, a)
        elif k == "loop":
            walk(st[2])
        elif k in ("sequential_block", "parallel_block"):
            for s in st[1:]:
                walk(s)
        elif k == "subcircuit_block":
            for s in st[2:]:
                walk(s)
    walk(block)


# ---------------------------------------------------------------------------------------
# implementation reader: jaqalpaq core objects, public attributes only

def impl_meaning(circ, overrides=None):
    from jaqalpaq.core.constant import Constant
    from jaqalpaq.core.parameter import Parameter
    from jaqalpaq.core.register import Register, NamedQubit
    from jaqalpaq.core.gate import GateStatement
    from jaqalpaq.core.block import BlockStatement, LoopStatement
    from jaqalpaq.core.macro import Macro

    overrides = overrides or {}

    def cval(c):
        if c.name in overrides:
            return overrides[c.name]
        v = c.value
        while isinstance(v, Constant):
            v = v.value
        return v

    def number(v, ctx, what):
        if isinstance(v, Constant):
            return cval(v)
        if isinstance(v, Parameter):
            if v.name not in ctx:
                raise Invalid(f"unbound parameter {v.name}")
            b = ctx[v.name]
            if b[0] != "n":
                raise Invalid(f"{what} is not a number")
            return b[1]
        if isinstance(v, bool) or not isinstance(v, (int, float)):
            raise Invalid(f"{what} {v!r} is not a number")
        return v

    def elements(reg, ctx):
        if isinstance(reg, Parameter):
            if reg.name not in ctx:
                raise Invalid(f"unbound parameter {reg.name}")
            b = ctx[reg.name]
            if b[0] != "r":
                raise Invalid("indexing something that is not a register")
            return b[1]
        if isinstance(reg, NamedQubit) or not isinstance(reg, Register):
            raise Invalid("indexing something that is not a register")
        if reg.alias_from is None:
            size = reg.size
            size = as_index(number(size, ctx, "register size"), "register size")
            if size <= 0:
                raise Invalid("register size <= 0")
            return tuple((reg.name, i) for i in range(size))
        src = elements(reg.alias_from, ctx)
        sl = reg.alias_slice
        if sl is None:
            return src
        a, b, c = (None if x is None else number(x, ctx, "slice bound") for x in (sl.start, sl.stop, sl.step))
        return _slice_elems(src, a, b, c)

    def qubit(q, ctx):
        src = elements(q.alias_from, ctx)
        i = as_index(number(q.alias_index, ctx, "index"))
        if not (0 <= i < len(src)):
            raise Invalid(f"index {i} outside {getattr(q.alias_from, 'name', '?')} (size {len(src)})")
        return ("q",) + src[i]

    def arg(v, ctx):
        if isinstance(v, NamedQubit):
            return qubit(v, ctx)
        if isinstance(v, Register):
            return ("r", elements(v, ctx))
        if isinstance(v, Parameter):
            if v.name not in ctx:
                raise Invalid(f"unbound parameter {v.name}")
            return ctx[v.name]
        return ("n", number(v, ctx, "argument"))

    def stmt(s, ctx, depth=0):
        if depth > 40:
            raise Invalid("macro recursion")
        if isinstance(s, GateStatement):
            vals = tuple(arg(v, ctx) for v in s.parameters.values())
            m = circ.macros.get(s.name)
            gd = s.gate_def
            if isinstance(gd, Macro) or m is not None:
                mac = gd if isinstance(gd, Macro) else m
                if len(mac.parameters) != len(vals):
                    raise Invalid("macro arity")
                return stmt(mac.body, {p.name: v for p, v in zip(mac.parameters, vals)}, depth + 1)
            return ("g", s.name, vals)
        if isinstance(s, LoopStatement):
            return ("loop", as_index(number(s.iterations, ctx, "loop count"), "loop count"), [stmt(s.statements, ctx, depth)])
        if isinstance(s, BlockStatement):
            kids = [stmt(x, ctx, depth) for x in s.statements]
            if s.subcircuit:
                return ("sub", as_index(number(s.iterations, ctx, "subcircuit count"), "subcircuit count"), kids)
            return ("par" if s.parallel else "seq", kids)
        raise Invalid(f"unsupported statement {type(s).__name__}")

    return norm(stmt(circ.body, {}))


# ---------------------------------------------------------------------------------------
# normalisation and derived views

def norm(t):
    k = t[0]
    if k == "g":
        return t
    if k == "loop":
        return ("loop", t[1], _kids("seq", t[2]))
    if k == "sub":
        return ("sub", t[1], _kids("seq", t[2]))
    kids = _kids(k, t[1])
    return (k, kids)


def _kids(kind, kids):
    out = []
    for c in kids:
        c = norm(c)
        if c[0] in ("seq", "par"):
            if not c[1]:
                continue
            if len(c[1]) == 1:
                c = c[1][0]
                if c[0] in ("seq", "par") and c[0] == kind:
                    out.extend(c[1])
                    continue
                out.append(c)
                continue
            if c[0] == kind:
                out.extend(c[1])
                continue
        out.append(c)
    return out


def same(a, b):
    """Canonical trees equal (numbers by value)."""
    return canon(a) == canon(b)


def canon(t):
    """Collapse the top-level container so that a single statement and a block of it agree."""
    t = norm(t)
    if t[0] in ("seq", "par") and len(t[1]) == 1:
        return t[1][0]
    return t


def unroll(t, expand_sub=True, p="prepare_all", m="measure_all"):
    """Execution-order list of gate instances (loops unrolled, parallel branches in written order)."""
    k = t[0]
    if k == "g":
        return [t]
    if k == "loop":
        body = [g for c in t[2] for g in unroll(c, expand_sub, p, m)]
        return body * max(0, t[1])
    if k == "sub":
        body = [g for c in t[2] for g in unroll(c, expand_sub, p, m)]
        return ([("g", p, ())] + body + [("g", m, ())]) if expand_sub else body
    return [g for c in t[1] for g in unroll(c, expand_sub, p, m)]


def used(t, all_qubits, busy=("prepare_all", "measure_all"), idle_prefix="I_"):
    """Set of fundamental (register, index) pairs on which some gate reachable from t acts.
    Gates named in `busy` (prepare/measure-style definitions) count as all qubits, idle gates
    (named idle_prefix + parent) as none."""
    k = t[0]
    if k == "g":
        if t[1] in busy:
            return set(all_qubits)
        if idle_prefix and t[1].startswith(idle_prefix):
            return set()
        s = set()
        for a in t[2]:
            if a[0] == "q":
                s.add((a[1], a[2]))
            elif a[0] == "r":
                s.update(a[1])
        return s
    kids = t[2] if k in ("loop", "sub") else t[1]
    s = set()
    for c in kids:
        s |= used(c, all_qubits, busy, idle_prefix)
    return s
