"""Reference token-level grammar of Jaqal, written from the language description in the property
statement (EBNF combinators expanded to plain productions).  Terminals are the lexer's token names and
literal characters.  Header-before-body ordering, register sizes and `import` are semantic and are not
part of this context-free reference (they are checked by E1 harnesses)."""


def build_reference():
    cnt = [0]
    P = []

    def nt(prefix="x"):
        cnt[0] += 1
        return f"R{prefix}{cnt[0]}"

    def rule(name, *alts):
        for a in alts:
            P.append((name, tuple(a)))
        return name

    def opt(*seq):
        n = nt("opt")
        rule(n, (), seq)
        return n

    def star(*seq):
        n = nt("star")
        rule(n, (), seq + (n,))
        return n

    def plus(*seq):
        n = nt("plus")
        rule(n, seq, seq + (n,))
        return n

    def alt(*alts):
        n = nt("alt")
        rule(n, *[(a,) if isinstance(a, str) else a for a in alts])
        return n

    def seplist(item, seps):
        """sep* [ item (sep+ item)* sep* ]  : items separated by one or more separators, optional padding"""
        sep = alt(*seps)
        n = nt("list")
        tail = star(plus(sep), item)
        rule(n, (star(sep),), (star(sep), item, tail, star(sep)))
        return n

    loi = alt("INT", "IDENTIFIER")
    gate_arg = alt("IDENTIFIER", "NUMBER", "INT", ("IDENTIFIER", "[", alt("IDENTIFIER", "INT"), "]"))
    rule("gate", ("IDENTIFIER", star(gate_arg)))
    rule("block", ("seq",), ("par",))
    rule("loop", ("LOOP", loi, "block"))
    rule("subc", ("SUBCIRCUIT", opt(loi), "seq"))
    in_seq = alt("gate", "par", "loop", "subc")
    in_par = alt("gate", "seq")
    rule("seq", ("{", seplist(in_seq, ["NL", ";"]), "}"))
    rule("par", ("<", seplist(in_par, ["NL", "|"]), ">"))
    rule("macro", ("MACRO", plus("IDENTIFIER"), "block"))
    rule("case", ("BININT", ":", "block"))
    rule("branch", ("BRANCH", "{", seplist("case", ["NL", ";"]), "}"))
    rule("register", ("REG", "IDENTIFIER", "[", loi, "]"))
    rule("let", ("LET", "IDENTIFIER", alt("NUMBER", "INT")))
    slice_ = nt("slice")
    rule(slice_, (opt(loi), ":", opt(loi), opt(":", loi)))
    rule("map", ("MAP", "IDENTIFIER", "IDENTIFIER", opt("[", alt(loi, slice_), "]")))
    rule("usepulses", ("FROM", alt("IDENTIFIER", "DOTIDENTIFIER"), "USEPULSES", "*"))
    rule("import", ("IMPORT", "IDENTIFIER", "AS", "IDENTIFIER"))
    top = alt("register", "let", "map", "usepulses", "import", "gate", "par", "seq", "subc", "loop", "macro", "branch")
    rule("start", (seplist(top, ["NL", ";"]),))
    return P
