"""Plain context-free grammar utilities (no solver): CNF conversion and a concrete CYK recogniser."""


def to_cnf(prods, start):
    nts = {l for l, _ in prods}
    P = []
    cnt = [0]
    for l, r in prods:
        r = tuple(r)
        while len(r) > 2:
            cnt[0] += 1
            n = f"_b{cnt[0]}"
            P.append((n, r[-2:]))
            nts.add(n)
            r = r[:-2] + (n,)
        P.append((l, r))
    nullable = set()
    ch = True
    while ch:
        ch = False
        for l, r in P:
            if l not in nullable and all(x in nullable for x in r):
                nullable.add(l)
                ch = True
    Q = set()
    for l, r in P:
        if len(r) == 0:
            continue
        if len(r) == 1:
            Q.add((l, r))
        else:
            a, b = r
            Q.add((l, r))
            if a in nullable:
                Q.add((l, (b,)))
            if b in nullable:
                Q.add((l, (a,)))
    unit = {n: {n} for n in nts}
    ch = True
    while ch:
        ch = False
        for l, r in Q:
            if len(r) == 1 and r[0] in nts:
                for n in nts:
                    if l in unit[n] and r[0] not in unit[n]:
                        unit[n].add(r[0])
                        ch = True
    G = {n: set() for n in nts}
    for n in nts:
        for m in unit[n]:
            for l, r in Q:
                if l == m and not (len(r) == 1 and r[0] in nts):
                    G[n].add(r)
    return G, nts, (start in nullable)


class Recogniser:
    def __init__(self, prods, start):
        self.G, self.nts, self.nullable = to_cnf(prods, start)
        self.start = start
        self.term = {}
        self.pairs = {}
        for A, alts in self.G.items():
            for r in alts:
                if len(r) == 1:
                    self.term.setdefault(r[0], set()).add(A)
                else:
                    self.pairs.setdefault(r, set()).add(A)

    def accepts(self, toks):
        n = len(toks)
        if n == 0:
            return self.nullable
        T = [[set() for _ in range(n + 1)] for _ in range(n)]
        for i, t in enumerate(toks):
            T[i][1] = set(self.term.get(t, ())) | {t}
        for l in range(2, n + 1):
            for i in range(0, n - l + 1):
                cell = T[i][l]
                for k in range(1, l):
                    for B in T[i][k]:
                        for C in T[i + k][l - k]:
                            for A in self.pairs.get((B, C), ()):
                                cell.add(A)
        return self.start in T[0][n]
