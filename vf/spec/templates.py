"""Program templates: functions from leaf values to a program in S-expression form.

Each template lists its leaves with (quick range, thorough range).  A leaf is an int unless its
name starts with 'x' (float, drawn from a finite grid by index) .  Gate names carry their
arity so that programs are well-formed when no native gate set is in force:
g1 q | g2 q q | h1 q num | n1 num | n0.
"""
import os

FLOATS = [0.5, -1.5, 2.0, 0.0, 1e-06, 1e+16, -3e+300, 0.1, 3.0, -0.25, 7.5e-05, 123456789.125, -2.0, 1.0]


def flt(k):
    return FLOATS[k]


def AI(name, idx):
    return ("array_item", name, idx)


T = {}


def template(**leaves):
    def deco(fn):
        fn.leaves = leaves
        T[fn.__name__] = fn
        return fn
    return deco


def ranges(name, tier):
    fn = T[name]
    out = []
    for leaf, (q, t) in fn.leaves.items():
        lo, hi = q
        if tier != "quick" and os.environ.get("VF_WIDE_LEAVES") == "1":
            # optional (not part of the registered commands; hours per property): the quick range extended by one
            # value on each side, within the declared outer bounds
            lo, hi = max(t[0], q[0] - 1), min(t[1], q[1] + 1)
        out.append((leaf, lo, hi))
    return out


# --- indices: literal, let, through a macro ---------------------------------------------

@template(size=((1, 3), (1, 4)), i=((-1, 3), (-2, 5)), n=((-1, 3), (-2, 5)))
def t_index(size, i, n):
    return ["circuit", ["let", "n", n], ["register", "r", size],
            ["gate", "g1", AI("r", i)], ["gate", "h1", AI("r", "n"), "n"]]


@template(size=((1, 3), (1, 4)), a=((-1, 3), (-2, 5)), b=((-1, 4), (-2, 5)), c=((1, 2), (1, 3)), i=((-1, 3), (-1, 4)))
def t_slice(size, a, b, c, i):
    return ["circuit", ["register", "r", size], ["map", "s", "r", a, b, c], ["gate", "g1", AI("s", i)]]


@template(size=((1, 3), (1, 4)), a=((0, 2), (-1, 3)), b=((0, 3), (-1, 5)), i=((0, 2), (-1, 3)), c=((1, 2), (1, 3)))
def t_slice_let(size, a, b, i, c):
    return ["circuit", ["let", "la", a], ["let", "lb", b], ["let", "lc", c], ["register", "r", size],
            ["map", "s", "r", "la", "lb", "lc"], ["map", "q", "s", i],
            ["gate", "g1", "q"], ["gate", "h1", AI("s", "la"), "lb"], ["gate", "g1", AI("s", i)]]


@template(size=((2, 4), (2, 5)), a=((0, 2), (0, 3)), c=((1, 2), (1, 3)), i=((0, 2), (0, 3)), j=((-1, 2), (-1, 3)))
def t_chain(size, a, c, i, j):
    return ["circuit", ["register", "r", size], ["map", "s", "r", a, None, c], ["map", "t", "s"],
            ["map", "u", "t", i, None, None], ["gate", "g1", AI("u", j)], ["gate", "g1", AI("t", i)]]


@template(size=((1, 3), (1, 4)), i=((-1, 3), (-1, 4)), k=((0, 2), (0, 3)))
def t_macro_idx(size, i, k):
    return ["circuit", ["register", "r", size],
            ["macro", "m", "p", "n", ["sequential_block", ["gate", "g1", "p"], ["gate", "h1", AI("r", "n"), "n"],
                                      ["loop", "n", ["sequential_block", ["gate", "g1", "p"]]]]],
            ["gate", "m", AI("r", i), k]]


@template(size=((2, 3), (2, 4)), i=((0, 2), (-1, 4)), j=((0, 2), (-1, 4)))
def t_macro_nested(size, i, j):
    return ["circuit", ["register", "r", size],
            ["macro", "mz", ["sequential_block", ["gate", "n0"], ["gate", "n1", 0.25]]],
            ["macro", "ma", "x", ["sequential_block", ["gate", "g1", "x"], ["gate", "n0"]]],
            ["macro", "mb", "x", "z", ["sequential_block", ["gate", "ma", "z"], ["gate", "mz"],
                                       ["parallel_block", ["gate", "ma", "x"], ["gate", "n1", 0.5]], ["gate", "g1", "x"]]],
            ["loop", 2, ["sequential_block", ["gate", "mb", AI("r", i), AI("r", j)]]],
            ["subcircuit_block", "", ["gate", "mb", AI("r", j), AI("r", i)]]]


@template(size=((2, 2), (1, 3)), i=((0, 2), (-1, 3)), k=((0, 2), (0, 3)))
def t_macro_empty(size, i, k):
    """Macros whose expansion is empty (directly, or because they only call such macros), called as the
    last / only statement of top-level, loop and nested blocks."""
    return ["circuit", ["register", "r", size],
            ["macro", "nop", "a", ["sequential_block"]],
            ["macro", "wrap", "a", "b", ["sequential_block", ["gate", "nop", "a"], ["parallel_block", ["gate", "nop", "b"]]]],
            ["gate", "g1", AI("r", i)],
            ["loop", k, ["sequential_block", ["gate", "g1", AI("r", 0)], ["gate", "wrap", AI("r", i), AI("r", 1)]]],
            ["sequential_block", ["gate", "nop", AI("r", 1)]],
            ["gate", "n1", 0.5], ["gate", "nop", AI("r", i)]]


@template(size=((1, 3), (1, 4)), i=((-1, 3), (-1, 4)), a=((0, 1), (0, 2)))
def t_macro_reg(size, i, a):
    return ["circuit", ["register", "r", size], ["map", "s", "r", a, None, None],
            ["macro", "m", "q", "k", ["parallel_block", ["gate", "g1", AI("q", "k")]]],
            ["gate", "m", "r", i], ["gate", "m", "s", i]]


@template(size=((2, 3), (2, 4)), v=((0, 2), (-1, 3)), i=((0, 2), (-1, 3)))
def t_shadow(size, v, i):
    return ["circuit", ["let", "a", v], ["register", "q", size],
            ["macro", "m", "a", ["sequential_block", ["gate", "g1", AI("q", "a")], ["gate", "n1", "a"]]],
            ["gate", "g1", AI("q", "a")], ["gate", "n1", "a"], ["gate", "m", i]]


@template(size=((1, 2), (1, 3)), k=((0, 2), (0, 3)), c=((0, 2), (0, 4)), i=((0, 1), (-1, 3)))
def t_loop_sub(size, k, c, i):
    return ["circuit", ["let", "lk", k], ["let", "lc", c], ["register", "r", size],
            ["loop", "lk", ["sequential_block", ["subcircuit_block", "lc", ["gate", "g1", AI("r", i)]]]],
            ["subcircuit_block", c, ["parallel_block", ["gate", "g1", AI("r", 0)]]],
            ["subcircuit_block", "", ["loop", k, ["sequential_block", ["gate", "n0"]]]]]


@template(size=((1, 2), (1, 3)), x=((0, 6), (0, 13)), i=((0, 1), (-1, 3)), xk=((0, 3), (0, 4)))
def t_float(size, x, i, xk):
    """float literals as let values, gate arguments and macro arguments; the same numbers (0.0, 2.0, 3.0, 1.0) also occur
    later as integers in integer-only positions (a loop count, a subcircuit count).  xk is enumerated, not symbolic
    (float(xk) of a symbolic integer would be a symbolic float, which str() cannot print symbolically)."""
    return ["circuit", ["let", "x", flt(x)], ["let", "y", 1.0], ["register", "r", size],
            ["macro", "m", "t", "q", ["sequential_block", ["gate", "h1", "q", "t"]]],
            ["gate", "h1", AI("r", i), "x"], ["gate", "n1", flt(x)], ["gate", "m", "x", AI("r", i)], ["gate", "m", 1.5, AI("r", "y")],
            ["gate", "n1", float(xk)], ["loop", xk, ["sequential_block", ["gate", "n1", flt(x)]]], ["subcircuit_block", xk, ["gate", "n1", float(xk)]]]


@template(n=((2, 3), (0, 4)), i=((-1, 3), (-1, 4)), b=((0, 3), (-1, 5)))
def t_regsize_let(n, i, b):
    return ["circuit", ["let", "n", n], ["register", "r", "n"], ["map", "s", "r", 0, b, None], ["map", "w", "r"],
            ["gate", "g1", AI("r", i)], ["gate", "g1", AI("s", i)], ["gate", "g1", AI("w", 1)]]


@template(size=((2, 3), (2, 4)), i=((0, 2), (-1, 4)), j=((0, 2), (-1, 4)), k=((0, 2), (0, 3)))
def t_blocks(size, i, j, k):
    return ["circuit", ["register", "r", size],
            ["parallel_block", ["gate", "g1", AI("r", i)], ["sequential_block", ["gate", "g1", AI("r", j)], ["gate", "n0"]]],
            ["sequential_block", ["loop", k, ["parallel_block", ["gate", "g1", AI("r", j)]]],
             ["parallel_block", ["sequential_block", ["gate", "n0"], ["gate", "n0"]], ["gate", "g1", AI("r", i)]]],
            ["loop", k, ["sequential_block", ["loop", 2, ["sequential_block", ["gate", "g2", AI("r", i), AI("r", j)]]]]]]


@template(size=((2, 3), (2, 4)), i=((0, 2), (-1, 4)), k=((0, 2), (0, 3)), c=((1, 2), (1, 3)))
def t_macro_sub(size, i, k, c):
    """macros called from every block context, and a macro whose body contains a subcircuit and a loop."""
    return ["circuit", ["let", "lc", c], ["register", "r", size],
            ["macro", "w", "q", "n", ["sequential_block", ["gate", "g1", "q"], ["loop", "n", ["parallel_block", ["gate", "g1", "q"]]]]],
            ["macro", "u", "q", ["sequential_block", ["subcircuit_block", "lc", ["gate", "w", "q", 1]]]],
            ["macro", "v", "q", ["sequential_block", ["loop", 2, ["sequential_block", ["subcircuit_block", "", ["gate", "g1", "q"]]]]]],
            ["gate", "u", AI("r", i)], ["gate", "v", AI("r", 0)],
            ["subcircuit_block", c, ["gate", "w", AI("r", i), k], ["parallel_block", ["gate", "w", AI("r", 0), k]]],
            ["loop", k, ["sequential_block", ["gate", "w", AI("r", i), "lc"]]]]


@template(size=((2, 3), (2, 4)), a=((0, 1), (0, 2)), i=((0, 1), (-1, 3)))
def t_alias_macro(size, a, i):
    """aliases inside macros: alias as argument, alias indexed in the body, single-qubit alias."""
    return ["circuit", ["let", "la", a], ["register", "r", size], ["map", "s", "r", "la", None, None], ["map", "q0", "s", 0], ["map", "w", "s"],
            ["macro", "m", "p", "k", ["sequential_block", ["gate", "g1", "p"], ["gate", "g1", AI("s", "k")], ["gate", "g1", "q0"]]],
            ["gate", "m", AI("s", i), i], ["gate", "m", "q0", 0], ["gate", "g2", "q0", AI("r", i)], ["gate", "g1", AI("w", i)]]


@template(size=((1, 2), (1, 3)), v=((0, 2), (-1, 3)), i=((0, 1), (-1, 3)))
def t_let_arg(size, v, i):
    """an integer-declared constant used only as a numeric argument (directly, in a macro body, as a macro argument)"""
    return ["circuit", ["let", "t", v], ["register", "r", size],
            ["macro", "m", "a", ["sequential_block", ["gate", "n1", "a"], ["gate", "n1", "t"]]],
            ["gate", "h1", AI("r", i), "t"], ["gate", "n1", "t"], ["gate", "m", "t"], ["loop", 2, ["sequential_block", ["gate", "m", 1.5]]]]


@template(size=((1, 2), (1, 3)), i=((0, 1), (-1, 3)), k=((0, 2), (0, 3)))
def t_seqfirst(size, i, k):
    """a plain sequential block as first top-level statement, followed by macro calls"""
    return ["circuit", ["register", "r", size],
            ["macro", "m", "q", "n", ["sequential_block", ["gate", "g1", "q"], ["loop", "n", ["sequential_block", ["gate", "n0"]]]]],
            ["sequential_block", ["gate", "g1", AI("r", i)], ["gate", "n0"]],
            ["gate", "m", AI("r", i), k],
            ["parallel_block", ["sequential_block", ["gate", "n0"], ["gate", "n0"]], ["gate", "m", AI("r", 0), 1]]]


@template(size=((1, 2), (1, 3)), c=((0, 2), (0, 4)), i=((0, 1), (-1, 3)))
def t_subcount(size, c, i):
    """a literal subcircuit count on its own (0 is a legal count)"""
    return ["circuit", ["register", "r", size], ["subcircuit_block", c, ["gate", "g1", AI("r", i)]], ["subcircuit_block", "", ["gate", "n0"]]]


@template(size=((2, 3), (2, 4)), a=((1, 2), (0, 3)), e=((-1, 1), (-2, 2)), c=((-2, -1), (-3, -1)), i=((0, 1), (-1, 2)))
def t_slice_rev(size, a, e, c, i):
    """reversed (negative-step) slices running down to a literal and to a let-valued stop e (0 and -1 included; the
    let-bounded alias is declared but not indexed, so that overriding the let cannot make every program invalid),
    and an empty alias that is declared but never indexed"""
    return ["circuit", ["let", "lb", e], ["register", "r", size], ["map", "s", "r", a, e, c], ["map", "em", "r", a, a, None],
            ["map", "t", "r", a, "lb", c], ["gate", "g1", AI("s", i)], ["gate", "h1", AI("r", a), "lb"]]


@template(size=((2, 3), (2, 4)), a=((0, 1), (0, 2)), i=((0, 2), (-1, 3)), j=((0, 2), (-1, 3)))
def t_macro_twice(size, a, i, j):
    """the same macro called several times with different index arguments; its body indexes an alias and the
    register by the parameter (a qubit object shared by all calls)"""
    return ["circuit", ["register", "r", size], ["map", "s", "r", a, None, None],
            ["macro", "m", "k", ["sequential_block", ["gate", "g1", AI("s", "k")]]],
            ["macro", "w", "k", "l", ["parallel_block", ["gate", "m", "k"], ["gate", "h1", AI("r", "l"), 0.5]]],
            ["gate", "m", i], ["gate", "m", j], ["loop", 2, ["sequential_block", ["gate", "w", j, i]]]]


@template(size=((2, 3), (2, 4)), i=((0, 2), (-1, 3)), k=((0, 2), (0, 3)))
def t_macro_single(size, i, k):
    """macros whose body is exactly one statement (a gate, a loop, a parallel block), called from the top level, from
    parallel blocks and from loop bodies"""
    return ["circuit", ["register", "r", size],
            ["macro", "mg", "q", ["sequential_block", ["gate", "g1", "q"]]],
            ["macro", "ml", "q", "n", ["sequential_block", ["loop", "n", ["sequential_block", ["gate", "g1", "q"]]]]],
            ["macro", "mp", "q", ["sequential_block", ["parallel_block", ["gate", "g1", "q"], ["gate", "n0"]]]],
            ["gate", "ml", AI("r", i), k], ["gate", "mp", AI("r", i)],
            ["parallel_block", ["gate", "ml", AI("r", 0), k], ["gate", "mg", AI("r", 1)]],
            ["parallel_block", ["gate", "mp", AI("r", 0)], ["gate", "g1", AI("r", 1)]],
            ["loop", k, ["sequential_block", ["gate", "ml", AI("r", i), 2]]],
            ["loop", 2, ["parallel_block", ["gate", "mg", AI("r", i)]]]]


@template(size=((2, 3), (2, 4)), a=((0, 1), (0, 2)), i=((0, 1), (-1, 2)))
def t_shadow_reg(size, a, i):
    """a macro parameter that shadows a map alias, and one that shadows the register; the same gate on the same index
    occurs in a macro body (on the parameter) and in the main body (on the alias / register)"""
    return ["circuit", ["let", "la", a], ["register", "r", size], ["map", "t", "r", "la", None, None],
            ["macro", "m", "t", "k", ["sequential_block", ["gate", "g1", AI("t", 0)], ["gate", "g1", AI("t", "k")], ["gate", "h1", AI("t", 0), 0.5]]],
            ["macro", "w", "r", ["sequential_block", ["gate", "g1", AI("r", 0)]]],
            ["gate", "g1", AI("t", 0)], ["gate", "h1", AI("t", 0), 0.5], ["gate", "g1", AI("t", i)],
            ["gate", "m", "r", i], ["gate", "m", "t", 0], ["gate", "w", "t"], ["gate", "g1", AI("r", 0)]]


ALL = sorted(T)
WITH_MACROS = [n for n in ALL if any(st[0] == "macro" for st in T[n](**{k: (v[0][0] if not k.startswith("x") else 0) for k, v in T[n].leaves.items()})[1:])]
WITH_LETS = [n for n in ALL if any(st[0] == "let" for st in T[n](**{k: (v[0][0] if not k.startswith("x") else 0) for k, v in T[n].leaves.items()})[1:])]
WITH_MAPS = [n for n in ALL if any(st[0] == "map" for st in T[n](**{k: (v[0][0] if not k.startswith("x") else 0) for k, v in T[n].leaves.items()})[1:])]
WITH_SUBS = ["t_macro_nested", "t_loop_sub", "t_macro_sub"]
