"""Reference tokenizer for Jaqal, written from the language description (independent of the sly
patterns): maximal munch over identifiers (dots allowed inside), signed integers, signed decimal numbers
with optional exponent, binary strings in quotes, single-character literals, // and /* */ comments
(non-nesting), spaces and tabs ignored, newlines significant."""

KEYWORDS = {"register": "REG", "map": "MAP", "let": "LET", "macro": "MACRO", "loop": "LOOP", "import": "IMPORT", "usepulses": "USEPULSES",
            "from": "FROM", "as": "AS", "branch": "BRANCH", "subcircuit": "SUBCIRCUIT"}
LITERALS = "<>|{};[],*:"


class LexProblem(Exception):
    pass


class Unspecified(Exception):
    """The language description does not say how this text is tokenised (e.g. '.5')."""


def _alpha(c):
    return ("a" <= c <= "z") or ("A" <= c <= "Z") or c == "_"


def _digit(c):
    return "0" <= c <= "9"


def _alnum(c):
    return _alpha(c) or _digit(c)


def tokens(text):
    """List of (terminal, start index, lexeme); raises LexProblem(index) on an illegal character or an
    unterminated comment / quote."""
    out = []
    i = 0
    n = len(text)
    while i < n:
        c = text[i]
        if c == " " or c == "\t":
            i += 1
            continue
        if c == "\n":
            j = i
            while j < n and text[j] == "\n":
                j += 1
            out.append(("NL", i, text[i:j]))
            i = j
            continue
        if c == "/" and i + 1 < n and text[i + 1] == "/":
            while i < n and text[i] != "\n":
                i += 1
            continue
        if c == "/" and i + 1 < n and text[i + 1] == "*":
            j = text.find("*/", i + 2)
            if j < 0:
                raise LexProblem(i)
            i = j + 2
            continue
        if _alpha(c):
            j = i + 1
            while j < n:
                if _alnum(text[j]):
                    j += 1
                elif text[j] == "." and j + 1 < n and _alnum(text[j + 1]):
                    j += 2
                else:
                    break
            w = text[i:j]
            out.append((KEYWORDS.get(w, "IDENTIFIER"), i, w))
            i = j
            continue
        if c == ".":
            if i + 1 < n and _digit(text[i + 1]):
                raise Unspecified(i)
            j = i + 1
            if j < n and _alpha(text[j]):
                j += 1
                while j < n:
                    if _alnum(text[j]):
                        j += 1
                    elif text[j] == "." and j + 1 < n and _alnum(text[j + 1]):
                        j += 2
                    else:
                        break
            out.append(("DOTIDENTIFIER", i, text[i:j]))
            i = j
            continue
        if _digit(c) or ((c == "+" or c == "-") and i + 1 < n and (_digit(text[i + 1]) or (text[i + 1] == "." and i + 2 < n and _digit(text[i + 2])))):
            j = i + 1 if (c == "+" or c == "-") else i
            while j < n and _digit(text[j]):
                j += 1
            if j < n and text[j] == "." and j + 1 < n and _digit(text[j + 1]):
                j += 1
                while j < n and _digit(text[j]):
                    j += 1
                if j < n and (text[j] == "e" or text[j] == "E"):
                    k = j + 1
                    if k < n and (text[k] == "+" or text[k] == "-"):
                        k += 1
                    if k < n and _digit(text[k]):
                        while k < n and _digit(text[k]):
                            k += 1
                        j = k
                out.append(("NUMBER", i, text[i:j]))
            else:
                out.append(("INT", i, text[i:j]))
            i = j
            continue
        if c == "'":
            j = i + 1
            while j < n and (text[j] == "0" or text[j] == "1"):
                j += 1
            if j == i + 1 or j >= n or text[j] != "'":
                raise LexProblem(i)
            out.append(("BININT", i, text[i:j + 1]))
            i = j + 1
            continue
        if c in LITERALS:
            out.append((c, i, c))
            i += 1
            continue
        raise LexProblem(i)
    return out
