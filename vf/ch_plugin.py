# CrossHair plugin (exec'd by --extra_plugin): two semantics-preserving engine patches
# that avoid realising symbolic values where CPython defines the result symbolically.
#   format(i, "") of a symbolic int  ->  str(i)        (CPython: identical)
#   int(x) of a symbolic float       ->  x.__int__()   (symbolic truncation)
# Both are self-tested by vf/harness/selftest.py on every run.


def _install():
    from crosshair.core import _PATCH_REGISTRATIONS, NoTracing
    from crosshair.libimpl import builtinslib as B
    from crosshair.util import CrossHairValue

    _orig_format = _PATCH_REGISTRATIONS[format]

    def _format2(obj, format_spec=""):
        with NoTracing():
            lazy = isinstance(obj, B.SymbolicInt) and isinstance(format_spec, str) and format_spec == ""
        if lazy:
            return str(obj)
        return _orig_format(obj, format_spec)

    _PATCH_REGISTRATIONS[format] = _format2

    _orig_int = _PATCH_REGISTRATIONS[int]

    def _int2(*a, **k):
        with NoTracing():
            if len(a) == 1 and not k and isinstance(a[0], B.SymbolicFloat):
                mode = 1
            elif not any(isinstance(v, CrossHairValue) for v in a) and not any(
                isinstance(v, CrossHairValue) for v in k.values()
            ):
                return int(*a, **k)
            else:
                mode = 0
        if mode == 1:
            return a[0].__int__()
        return _orig_int(*a, **k)

    _PATCH_REGISTRATIONS[int] = _int2


_install()
