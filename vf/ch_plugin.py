# CrossHair plugin (exec'd by --extra_plugin): semantics-preserving engine patches
# that avoid realising symbolic values where CPython defines the result symbolically.
#   format(i, "") of a symbolic int  ->  str(i)        (CPython: identical)
#   int(x) of a symbolic float       ->  x.__int__()   (symbolic truncation)
#   hash(obj)                         ->  the object's real __hash__ (CrossHair's own patch carries a
#       contract that lets it *short-circuit* hash() to an arbitrary symbolic int; a native dict then
#       rejects the user-defined __hash__ of jaqalpaq's Register/NamedQubit with
#       "TypeError: __hash__ method should return an integer", a tool artefact, not behaviour)
#   set(<iterable>) -> a native set of the realised elements (the iterable is iterated under tracing).  CrossHair's own
#       constructor patch returns a shell object on which a native set's in-place `tgt |= src`
#       is not in place (measured: `u = d[k]; u |= set((0,))` leaves d[k] empty under tracing,
#       which made UsedQubitIndicesVisitor.merge_into lose every qubit).  Elements of a set are
#       hashed, hence realised, in any case.


def _install():
    import types
    from crosshair.core import _PATCH_REGISTRATIONS, NoTracing
    from crosshair.libimpl import builtinslib as B
    from crosshair.util import CrossHairValue

    _orig_format = _PATCH_REGISTRATIONS[format]

    def _format2(obj, format_spec=""):
        with NoTracing():
            lazy = isinstance(obj, B.SymbolicInt) and isinstance(format_spec, str) and format_spec == ""
            # an object with a Python-level __format__ (the harnesses' lazily rendered diagnostics) may close over
            # symbolic values: run it under tracing (CrossHair's own patch would call it with the tracer off)
            fn = None if isinstance(obj, CrossHairValue) else getattr(type(obj), "__format__", None)
            user = isinstance(fn, types.FunctionType)
        if lazy:
            return str(obj)
        if user:
            return fn(obj, format_spec)
        return _orig_format(obj, format_spec)

    _PATCH_REGISTRATIONS[format] = _format2

    _orig_int = _PATCH_REGISTRATIONS[int]

    def _int2(*a, **k):
        with NoTracing():
            if len(a) == 1 and not k and isinstance(a[0], B.SymbolicFloat):
                mode = 1
            elif all(type(v) in (int, float, str, bytes, bool) for v in a) and all(
                type(v) in (int, float, str, bytes, bool) for v in k.values()
            ):
                # plain builtins only: an object with a user-defined __int__ (jaqalpaq's Constant) may
                # hold symbolic state and must be converted under tracing
                return int(*a, **k)
            elif (len(a) == 1 and not k and not isinstance(a[0], CrossHairValue)
                  and isinstance(getattr(type(a[0]), "__int__", None), types.FunctionType)):
                # an object with a Python-level __int__ (jaqalpaq's Constant): run it under tracing, its
                # fields may be symbolic (CrossHair's own patch would call it natively)
                mode = 2
                fn = type(a[0]).__int__
            else:
                mode = 0
        if mode == 1:
            return a[0].__int__()
        if mode == 2:
            return fn(a[0])
        return _orig_int(*a, **k)

    _PATCH_REGISTRATIONS[int] = _int2

    from crosshair.libimpl.builtinslib import invoke_dunder
    from crosshair.util import is_hashable

    def _hash_plain(obj):
        with NoTracing():
            if not is_hashable(obj):
                return hash(obj)
        return invoke_dunder(obj, "__hash__")

    _PATCH_REGISTRATIONS[hash] = _hash_plain

    from crosshair.core import deep_realize

    _orig_set = _PATCH_REGISTRATIONS.get(set)

    def _set2(*a):
        if len(a) != 1:
            with NoTracing():
                return set(*a)
        items = list(a[0])          # iterate under tracing (the iterable may be symbolic, e.g. range(n))
        with NoTracing():
            return set(deep_realize(items))

    _PATCH_REGISTRATIONS[set] = _set2

    _orig_dict_get = _PATCH_REGISTRATIONS.get(dict.get)

    def _no_proxy(key, depth=0):
        if isinstance(key, CrossHairValue):
            return False
        if isinstance(key, (tuple, list, frozenset)) and depth < 6:
            return all(_no_proxy(k, depth + 1) for k in key)
        return True

    def _dict_get2(self, key, default=None):
        with NoTracing():
            native = isinstance(self, dict) and not isinstance(self, CrossHairValue) and _no_proxy(key)
        if native:
            # a key without CrossHair proxies is looked up as CPython does (hash first, then ==).  CrossHair's own
            # patch turns the dict into an equality-only SimpleDict for every key that is not int/float/str, which
            # conflates jaqalpaq's NamedQubits that compare equal by name but hash differently (GateMemoizer keys)
            # (through the slot wrappers: dict.get itself is the patched callable, and calling it from here is dispatched to
            # CrossHair's implementation and back -- unbounded mutual recursion, met with seeded change C07_r4a)
            if dict.__contains__(self, key):
                return dict.__getitem__(self, key)
            return default
        return _orig_dict_get(self, key, default)

    if _orig_dict_get is not None:
        _PATCH_REGISTRATIONS[dict.get] = _dict_get2


_install()
