"""Replay one recorded counterexample against the real code in plain Python (no CrossHair,
no solver): `python -m vf.replay <file.json>`.

exit 1: the harness reports a violation (or raises) on the recorded arguments
exit 0: it does not (the counterexample does not reproduce)
"""
import importlib
import json
import math
import sys
import traceback


def load_args(rec):
    env = {"nan": math.nan, "inf": math.inf, "float": float}
    return {k: eval(v, {"__builtins__": {}}, env) for k, v in rec["args_repr"].items()}


def call(rec):
    module, function = rec["func"].split(":")
    fn = getattr(importlib.import_module(module), function)
    args = load_args(rec)
    import inspect
    try:
        inspect.signature(fn).bind(**args)
    except TypeError as ex:
        print("replay record does not match the harness signature:", ex)
        sys.exit(3)
    try:
        out = fn(**args)
    except BaseException as ex:  # noqa
        return "exception escaped the harness: " + "".join(traceback.format_exception_only(type(ex), ex)).strip()
    return out


def main(argv):
    with open(argv[1]) as fh:
        rec = json.load(fh)
    out = call(rec)
    if out == "" or (isinstance(out, str) and out.startswith("~")):
        print(f"REPLAY property={rec.get('property')} job={rec.get('job')}: does not reproduce ({out!r})")
        return 0
    print(f"REPLAY property={rec.get('property')} job={rec.get('job')}: VIOLATED: {out}")
    return 1


if __name__ == "__main__":
    sys.exit(main(sys.argv))
