"""Generate a CrossHair wrapper module for one CH job, run `crosshair check` on it and
parse the verdicts."""
import ast
import math
import os
import re
import subprocess
import sys
import time

from .jobs import CH

HERE = os.path.dirname(os.path.abspath(__file__))
ROOT = os.path.dirname(HERE)
VENV_BIN = os.path.join(ROOT, ".venv", "bin")
PLUGIN = os.path.join(HERE, "ch_plugin.py")

_TEMPLATE = '''\
import atexit, sys
from {module} import {function} as _impl
from vf.harness import isolate as _iso
_iso.snapshot()
_CNT = [0, 0]
atexit.register(lambda: sys.stderr.write("VFCOUNT %d %d\\n" % (_CNT[0], _CNT[1])))

def twin({params}) -> str:
    """
{pre}
    post: _ != ""
    """
    _iso.restore()
    return _impl({args})

def job({params}) -> str:
    """
{pre}
    post: _ == "" or _.startswith("~")
    """
    _CNT[0] += 1
    _iso.restore()
    _r = _impl({args})
    if len(_r) == 0:
        _CNT[1] += 1
    return _r
'''


def render(job: CH, extra_pre=()):
    module, function = job.func.split(":")
    params = ", ".join(f"{n}: {t}" for n, t in job.params)
    args = ", ".join([f"{n}={n}" for n, _ in job.params] + [f"{k}={v!r}" for k, v in job.fixed.items()])
    pres = list(job.pre) + list(extra_pre)
    if not pres:
        pres = ["True"]
    pre = "\n".join(f"    pre: {p}" for p in pres)
    return _TEMPLATE.format(module=module, function=function, params=params, args=args, pre=pre)


_LINE = re.compile(r"^(?P<file>.*?):(?P<line>\d+): (?P<kind>error|info|warning): (?P<msg>.*)$")


def _eval_arg(node):
    src = ast.unparse(node)
    try:
        return ast.literal_eval(node)
    except Exception:
        return eval(src, {"__builtins__": {}}, {"float": float, "nan": math.nan, "inf": math.inf, "True": True, "False": False, "None": None})


def parse_call(msg, names=()):
    """Extract the arguments of the call quoted in a CrossHair message (positional ones are
    matched to `names`)."""
    key = "when calling "
    i = msg.find(key)
    if i < 0:
        return None
    text = msg[i + len(key):]
    # find the shortest prefix that parses as a call expression
    for j in range(len(text)):
        if text[j] != ")":
            continue
        cand = text[: j + 1]
        try:
            node = ast.parse(cand, mode="eval").body
        except SyntaxError:
            continue
        if isinstance(node, ast.Call):
            out = {}
            if len(node.args) > len(names):
                return None
            for nm, av in zip(names, node.args):
                out[nm] = _eval_arg(av)
            for kw in node.keywords:
                out[kw.arg] = _eval_arg(kw.value)
            return out
    return None


def run(job: CH, workdir: str, extra_pre=(), timeout_scale=1.0, want_twin=True):
    """Run one job.  Returns a dict with the verdicts for 'job' and 'twin'."""
    src = render(job, extra_pre)
    path = os.path.join(workdir, f"w_{job.name}.py")
    with open(path, "w") as fh:
        fh.write(src)
    lines = src.splitlines()
    twin_line = next(i + 1 for i, l in enumerate(lines) if l.startswith("def twin("))
    job_line = next(i + 1 for i, l in enumerate(lines) if l.startswith("def job("))
    t_cond = max(5, int(job.timeout * timeout_scale))
    env = dict(os.environ)
    env["PYTHONPATH"] = ROOT + os.pathsep + env.get("PYTHONPATH", "")
    if env.get("VF_REPO_SRC"):
        env["PYTHONPATH"] = env["VF_REPO_SRC"] + os.pathsep + env["PYTHONPATH"]
    env["PYTHONHASHSEED"] = "0"
    env.pop("JAQALPAQ_VERIF", None)
    res = {"job": job.name, "file": path, "verdict": None, "twin": None, "args": None, "twin_args": None,
           "message": "", "paths": 0, "oracle_paths": 0, "timeout": t_cond}
    targets = []
    if want_twin and job.twin:
        targets.append(f"{path}:{twin_line + 1}")
    targets.append(f"{path}:{job_line + 1}")
    cmd = [os.path.join(VENV_BIN, "python"), "-m", "crosshair", "check", "--report_all",
           "--per_condition_timeout", str(t_cond), "--per_path_timeout", str(job.path_timeout * timeout_scale),
           ] + targets + ["--extra_plugin", PLUGIN]
    t0 = time.time()
    try:
        p = subprocess.run(cmd, cwd=workdir, env=env, capture_output=True, text=True,
                           timeout=t_cond * 2.5 + 120)
        out, err, rc = p.stdout, p.stderr, p.returncode
    except subprocess.TimeoutExpired as ex:
        out = (ex.stdout or b"").decode() if isinstance(ex.stdout, bytes) else (ex.stdout or "")
        err = "OS timeout"
        rc = -9
    res["wall_s"] = round(time.time() - t0, 2)
    res["rc"] = rc
    m = re.search(r"VFCOUNT (\d+) (\d+)", err or "")
    if m:
        res["paths"], res["oracle_paths"] = int(m.group(1)), int(m.group(2))
    for line in out.splitlines():
        mm = _LINE.match(line)
        if not mm:
            continue
        ln = int(mm.group("line"))
        which = "job" if ln >= job_line else "twin"
        kind, msg = mm.group("kind"), mm.group("msg")
        if kind == "error":
            verdict = "counterexample"
            args = parse_call(msg, [n for n, _ in job.params])
        elif "Confirmed over all paths" in msg:
            verdict, args = "confirmed", None
        elif "Not confirmed" in msg:
            verdict, args = "not_confirmed", None
        elif "Unable to meet precondition" in msg:
            verdict, args = "no_precondition", None
        else:
            continue
        if which == "job":
            res["verdict"], res["args"], res["message"] = verdict, args, msg
        else:
            res["twin"], res["twin_args"] = verdict, args
    if res["verdict"] is None:
        res["verdict"] = "tool_error"
        res["message"] = (err or "")[-2000:] + (out or "")[-500:]
    return res
