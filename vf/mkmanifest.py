"""Regenerate /verif/MANIFEST.json from the property modules that exist: python -m vf.mkmanifest"""
import importlib
import json
import os

HERE = os.path.dirname(os.path.abspath(__file__))
ROOT = os.path.dirname(HERE)

ALL = [f"C{i:02d}" for i in range(1, 21)]

CH = "bounded symbolic execution of the real Python code (CrossHair 0.0.110, z3 deciding every branch; verdict = all paths exhausted within the stated bounds or a counterexample replayed on the real code)"
TECHNIQUE = {
    "C01": CH + "; plus z3 regular-expression queries over the live lexer patterns (generator output is one token of the right class, unbounded length)",
    "C02": "z3 bounded language equivalence (CYK encoding of the live sly productions vs a reference grammar, token strings <= 10/12), z3 regular-expression "
           "queries over the live lexer patterns (unbounded length), and " + CH,
    "C03": "z3 bit-vector equivalence of the emulator's index kernel (translated from the live AST) with the tensor-product specification, and " + CH,
    "C15": "z3 nonlinear real arithmetic over ProbabilisticSubcircuit.__init__ translated from the live AST (all real input vectors of 2/4/8 outcomes), and " + CH,
    "C16": CH + " on symbolic strings; plus z3 regular-language queries on the lexer's token actions (token texts of unbounded length)",
    "C09": CH + "; program shapes are enumerated, counts/indices symbolic (enumeration-equivalent over shapes)",
    "C11": CH + "; call histories are selected by the solver from a finite menu and leaf values are symbolic (enumeration-equivalent over histories)",
    "C12": CH + "; backend histories are selected by the solver and executed natively (enumeration-equivalent over histories)",
    "C19": CH + "; nesting shapes are enumerated, lengths symbolic (enumeration-equivalent over shapes)",
}

NOT_BUILT = "no check registered yet: harness under construction (see DESIGN.md section 3 for the planned obligations)"


def main():
    checks = []
    na = []
    for pid in ALL:
        path = os.path.join(HERE, "props", pid.lower() + ".py")
        if not os.path.exists(path):
            na.append({"property_id": pid, "reason": NOT_BUILT})
            continue
        mod = importlib.import_module(f"vf.props.{pid.lower()}")
        meta = getattr(mod, "META", {})
        if meta.get("not_applicable"):
            na.append({"property_id": pid, "reason": meta["not_applicable"]})
            continue
        checks.append({
            "property_id": pid,
            "quick_cmd": f"./check {pid} quick",
            "thorough_cmd": f"./check {pid} thorough",
            "evidence_file": f"/verif/evidence/{pid}.json",
            "replay_cmd_template": "./check --replay {path}",
            "engine": meta.get("engine", "crosshair+z3"),
            "level_claimed": {
                "category": "model_checking",
                "text": meta.get("level_text", "bounded symbolic execution of the real code: every obligation is decided by the solver "
                                               "for all argument values within the stated bounds (CrossHair 'Confirmed over all paths' / SMT unsat), "
                                               "counterexamples are replayed against the real code before being reported"),
                "design_ref": meta.get("design_ref", f"DESIGN.md section 3, {pid}"),
            },
            "level_note": meta.get("level_note", "trusted: CrossHair 0.0.110 + z3 5.1 (path exhaustiveness, theory solving), CPython 3.12, "
                                                 "the harness oracles in vf/harness and vf/spec; bounds in evidence.coverage.bounds; nothing outside them is claimed"),
            "technique": meta.get("technique", TECHNIQUE.get(pid, CH)),
        })
    man = {
        "version": 1,
        "setup_cmd": "./setup.sh",
        "hooks": {
            "guard": "JAQALPAQ_VERIF",
            "enable": "no source hooks are needed: checks import /repo/src of the working tree directly (overlay venv .pth); "
                      "the guard variable is reserved and unset by the checks",
            "baseline_off_cmd": "cd /repo && /venv/bin/python -m pytest -ra -q -p no:cacheprovider --timeout=900 --continue-on-collection-errors",
            "source_commits": [],
            "add_only": True,
        },
        "engines": [
            {"name": "E1 crosshair", "path": "vf/chrun.py", "serves_properties": [c["property_id"] for c in checks],
             "kind_free_text": "symbolic execution of the real jaqalpaq functions on symbolic int/float/str arguments, z3 behind it"},
            {"name": "E2 lexer regex -> z3", "path": "vf/smt/lexer.py", "serves_properties": ["C01", "C02", "C16"],
             "kind_free_text": "JaqalLexer patterns read from the live class and translated to z3 regular expressions"},
            {"name": "E3 grammar CYK -> z3", "path": "vf/smt/grammar.py", "serves_properties": ["C02"],
             "kind_free_text": "sly productions read from the live JaqalParser, bounded language equivalence with a reference grammar"},
            {"name": "E4 AST -> z3 kernels", "path": "vf/smt/kernel.py", "serves_properties": ["C03", "C15"],
             "kind_free_text": "emulator index kernel (QF_BV) and probability normalisation (QF_NRA) translated from the live source"},
        ],
        "checks": checks,
        "notes": "All checks: ./check <id> quick|thorough (runs ./setup.sh idempotently). Exit 0 ok, 1 VIOLATION, 2 inconclusive, 3 harness error. "
                 "Known findings and fixed defects: known_findings.json.",
        "not_applicable": na,
    }
    with open(os.path.join(ROOT, "MANIFEST.json"), "w") as fh:
        json.dump(man, fh, indent=1)
    print("claimed:", [c["property_id"] for c in checks], "not claimed:", [n["property_id"] for n in na])


if __name__ == "__main__":
    main()
