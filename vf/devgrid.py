"""Development aid (not a check): run a harness concretely over the product of its leaf ranges to
debug oracles before handing them to the solver.  python -m vf.devgrid module:function tname tier [k=v ...]"""
import importlib, itertools, sys, collections
from vf.spec.templates import ranges


def main(argv):
    module, function = argv[1].split(":")
    fn = getattr(importlib.import_module(module), function)
    tname, tier = argv[2], argv[3]
    fixed = {}
    for kv in argv[4:]:
        k, v = kv.split("=")
        fixed[k] = eval(v)
    rs = ranges(tname, tier)
    diags = collections.Counter()
    first = {}
    n = 0
    for vals in itertools.product(*[range(lo, hi + 1) for _, lo, hi in rs]):
        leaves = {name: v for (name, _, _), v in zip(rs, vals)}
        try:
            out = fn(tname=tname, **fixed, **leaves)
        except Exception as ex:
            out = "HARNESS EXC " + repr(ex)
        n += 1
        key = out.split("::")[0][:110]
        diags[key] += 1
        first.setdefault(key, (leaves, out))
    print(tname, n, "cases")
    for k, c in diags.most_common():
        print(f"  {c:6d}  {k!r}")
        if k and not k.startswith("~"):
            print("          e.g.", first[k][0], first[k][1][-300:])


if __name__ == "__main__":
    main(sys.argv)
