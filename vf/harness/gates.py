"""A native gate set for harness programs (same gate names and arities as the templates use) with
distinguishable ideal unitaries, and helpers to make template programs executable."""
import cmath
import math

import numpy

from jaqalpaq.core.gatedef import GateDefinition, BusyGateDefinition, add_idle_gates
from jaqalpaq.core.parameter import Parameter, ParamType


def _u1():
    # a fixed asymmetric 1-qubit unitary
    a, b = 0.6, 0.8
    return numpy.array([[a, -b * cmath.exp(0.3j)], [b * cmath.exp(0.7j), a * cmath.exp(1.0j)]], dtype=complex)


def _rot(theta):
    c, s = math.cos(theta / 2), math.sin(theta / 2)
    return numpy.array([[c, -1j * s * cmath.exp(0.2j)], [-1j * s * cmath.exp(-0.2j), c]], dtype=complex)


def u_g1():
    return _u1()


def u_h1(theta):
    return _rot(float(theta) + 0.4)


def u_g2():
    # asymmetric 2-qubit unitary: (u1 on arg0 controlled by arg1) then a rotation on arg1; bit j of the
    # matrix index is the j-th qubit argument
    m = numpy.zeros((4, 4), dtype=complex)
    u = _u1()
    # index = b0 + 2*b1 ; control on b1
    for b0 in range(2):
        m[b0, b0] = 1.0
    for r in range(2):
        for c in range(2):
            m[2 + r, 2 + c] = u[r, c]
    k = numpy.kron(_rot(0.9), numpy.eye(2))      # acts on b1 (the more significant bit)
    return k @ m


def u_g3():
    m = numpy.zeros((8, 8), dtype=complex)
    perm = [0, 1, 2, 3, 4, 6, 7, 5]           # a 3-cycle on some basis states: not symmetric in the arguments
    for c, r in enumerate(perm):
        m[r, c] = cmath.exp(0.1j * c)
    return m @ numpy.kron(numpy.eye(4), _u1())


def u_n1(x):
    return numpy.array([[cmath.exp(1j * float(x))]], dtype=complex)


Q = ParamType.QUBIT
F = ParamType.FLOAT

ACTIVE = {
    "prepare_all": BusyGateDefinition("prepare_all"),
    "measure_all": BusyGateDefinition("measure_all"),
    "g1": GateDefinition("g1", [Parameter("q", Q)], ideal_unitary=u_g1),
    "h1": GateDefinition("h1", [Parameter("q", Q), Parameter("t", F)], ideal_unitary=u_h1),
    "g2": GateDefinition("g2", [Parameter("q0", Q), Parameter("q1", Q)], ideal_unitary=u_g2),
    "g3": GateDefinition("g3", [Parameter("q0", Q), Parameter("q1", Q), Parameter("q2", Q)], ideal_unitary=u_g3),
    "n1": GateDefinition("n1", [Parameter("x", F)], ideal_unitary=u_n1),
    "n0": GateDefinition("n0", []),                      # no unitary: leaves the state unchanged
}
NATIVE = add_idle_gates(ACTIVE)
UNITARY = {"g1": (u_g1, 1), "h1": (u_h1, 1), "g2": (u_g2, 2), "g3": (u_g3, 3), "n1": (u_n1, 0)}


def _contains_sub(st, macros):
    k = st[0]
    if k == "subcircuit_block":
        return True
    if k == "gate":
        if st[1] in ("prepare_all", "measure_all"):
            return True
        if st[1] in macros:
            return _contains_sub(macros[st[1]], macros)
        return False
    if k == "loop":
        return _contains_sub(st[2], macros)
    if k in ("sequential_block", "parallel_block"):
        return any(_contains_sub(s, macros) for s in st[1:])
    return False


def wrap_for_emulator(sx):
    """Bracket every maximal run of top-level statements that contain no subcircuit with
    prepare_all ... measure_all, so that the program is executable."""
    macros = {st[1]: st[-1] for st in sx[1:] if st[0] == "macro"}
    out = [sx[0]]
    run = []

    def flush():
        if run:
            out.append(["gate", "prepare_all"])
            out.extend(run)
            out.append(["gate", "measure_all"])
            run.clear()

    for st in sx[1:]:
        if st[0] in ("let", "register", "map", "macro", "usepulses"):
            flush()
            out.append(st)
        elif _contains_sub(st, macros):
            flush()
            out.append(st)
        else:
            run.append(st)
    flush()
    return out


# ---------------------------------------------------------------------------------------
# reference state-vector semantics (pure Python, little-endian as the statement says)

def apply_gate(state, n, mat, qubits):
    """state' = (mat on `qubits`, identity elsewhere) state.  Bit t of a matrix index belongs to
    qubits[t]; bit q of a state index to register qubit q."""
    k = len(qubits)
    dim = 1 << n
    out = [0j] * dim
    for i in range(dim):
        row = 0
        for t, q in enumerate(qubits):
            if (i >> q) & 1:
                row |= 1 << t
        base = i
        for q in qubits:
            base &= ~(1 << q)
        acc = 0j
        for col in range(1 << k):
            j = base
            for t, q in enumerate(qubits):
                if (col >> t) & 1:
                    j |= 1 << q
            acc += complex(mat[row][col]) * state[j]
        out[i] = acc
    return out


def ref_state(gates, n):
    """U_k ... U_1 |0..0> for the executed gate list (canonical ('g', name, args) tuples)."""
    state = [0j] * (1 << n)
    state[0] = 1 + 0j
    for g in gates:
        name = g[1]
        if name.startswith("I_") or name not in UNITARY:
            continue
        fn, _ = UNITARY[name]
        qs = [a[2] for a in g[2] if a[0] == "q"]
        cl = [a[1] for a in g[2] if a[0] == "n"]
        mat = fn(*cl)
        state = apply_gate(state, n, [[mat[r, c] for c in range(mat.shape[1])] for r in range(mat.shape[0])], qs)
    return state
