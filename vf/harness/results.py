"""C15: result views are normalised and mutually consistent (little-endian)."""
from jaqalpaq.error import JaqalError
from jaqalpaq.core.circuitbuilder import build
from jaqalpaq.core.result import parse_jaqal_output_list, ProbabilisticSubcircuit
from jaqalpaq.run import run_jaqal_circuit

from .common import exc, concretely
from .gates import NATIVE


def _bits(v, n):
    """little-endian bit string: qubit 0 is the leftmost character"""
    return "".join("1" if (v >> k) & 1 else "0" for k in range(n))


def c15_readout(n: int, r0: int, r1: int, as_string: int) -> str:
    """Outputs r0, r1 (given as int or, when bit k of as_string is set, as little-endian bit string) for a
    program with one prepare/measure section on n qubits, repeated twice by a loop."""
    dim = 1 << n
    sx = ["circuit", ["register", "r", n], ["loop", 2, ["sequential_block", ["gate", "prepare_all"], ["gate", "g1", ("array_item", "r", 0)], ["gate", "measure_all"]]]]
    outs = [r0, r1]
    given = [_bits(v, n) if (as_string >> k) & 1 else v for k, v in enumerate(outs)]
    try:
        c = build(sx, inject_pulses=NATIVE)
        res = parse_jaqal_output_list(c, given)
    except Exception as ex:
        return f"parse_jaqal_output_list raised {exc(ex)} for n={n} outputs={given}"
    if len(res.readouts) != 2 or len(res.subcircuits) != 1:
        return f"{len(res.readouts)} readouts / {len(res.subcircuits)} subcircuits"
    sc = res.subcircuits[0]
    for k, rd in enumerate(res.readouts):
        v = outs[k]
        if rd.as_int != v:
            return f"output {given[k]!r} read as int {rd.as_int}, expected {v} (n={n})"
        s = rd.as_str
        if len(s) != n:
            return f"as_str {s!r} has {len(s)} characters for {n} qubits"
        for q in range(n):
            if (s[q] == "1") != bool((v >> q) & 1):
                return f"as_str {s!r} of {v}: character {q} does not match bit {q}"
    by_int = list(sc.relative_frequency_by_int)
    by_str = sc.relative_frequency_by_str
    if len(by_int) != dim or len(by_str) != dim:
        return f"views have {len(by_int)} / {len(by_str)} entries for {n} qubits"
    keys = list(by_str.keys())
    for v in range(dim):
        if keys[v] != _bits(v, n):
            return f"key {v} of the string view is {keys[v]!r}, expected {_bits(v, n)!r}"
        want = (1 if r0 == v else 0) + (1 if r1 == v else 0)
        if by_int[v] != want:
            return f"relative frequency of {v} is {by_int[v]}, expected {want}"
        if by_str[keys[v]] != by_int[v]:
            return f"string view and integer view disagree at {v}"
    if list(sc.probability_by_int) != by_int:
        return "deprecated probability_by_int differs"
    return ""


def c15_views(n: int, i: int, j: int) -> str:
    """Emulated distribution on n qubits after g1 r[i]; g2 r[i] r[j]: probabilities >= 0, sum to 1, string view
    and integer view describe the same distribution with the little-endian key order."""
    sx = ["circuit", ["register", "r", n], ["gate", "prepare_all"], ["gate", "g1", ("array_item", "r", i)], ["gate", "g2", ("array_item", "r", i), ("array_item", "r", j)],
          ["gate", "measure_all"]]
    try:
        c = build(sx, inject_pulses=NATIVE)
        res = concretely(run_jaqal_circuit, c)
    except JaqalError:
        return "~rejected"
    except Exception as ex:
        return f"non-JaqalError escaped: {exc(ex)}"
    sc = res.subcircuits[0]
    dim = 1 << n
    p_int = [float(x) for x in sc.simulated_probability_by_int]
    p_str = sc.simulated_probability_by_str
    if len(p_int) != dim or len(p_str) != dim:
        return f"views have {len(p_int)} / {len(p_str)} entries"
    if any(x < 0 for x in p_int) or abs(sum(p_int) - 1) > 1e-9:
        return f"not a distribution: {p_int}"
    keys = list(p_str.keys())
    for v in range(dim):
        if keys[v] != _bits(v, n):
            return f"key {v} of the string view is {keys[v]!r}, expected {_bits(v, n)!r}"
        if float(p_str[keys[v]]) != p_int[v]:
            return f"views disagree at {v}"
    # qubit i is the only one that can be excited before g2: the marginal must sit on bit i / bit j
    for v in range(dim):
        if p_int[v] > 1e-12 and (v & ~((1 << i) | (1 << j))):
            return f"outcome {v} has probability {p_int[v]} although only qubits {i},{j} were acted on (bit order)"
    st = [complex(x) for x in sc.state_vector]
    for v in range(dim):
        if abs(abs(st[v]) ** 2 - p_int[v]) > 1e-9:
            return "probabilities are not |state|^2"
    # readouts of this run obey the same convention
    for rd in res.readouts:
        if rd.as_str != _bits(rd.as_int, n):
            return f"readout {rd.as_int} printed as {rd.as_str!r}"
    return ""


class _Trace:
    def __init__(self, n):
        self.used_qubits = list(range(n))
        self.end = [0]
        self.start = [0]


def replay_normalise(p) -> str:
    import math
    import warnings
    n = max(1, int(math.log2(len(p))))
    with warnings.catch_warnings():
        warnings.simplefilter("ignore")
        try:
            sc = ProbabilisticSubcircuit(_Trace(n), 0, probabilities=list(p))
        except RuntimeError:
            return ""
    q = [float(x) for x in sc.simulated_probability_by_int]
    if any(x < 0 for x in q) or abs(sum(q) - 1) > 1e-9:
        return f"input {list(p)} accepted, stored probabilities {q}"
    return ""


def c15_history(n: int, i: int, p0: int, p1: int) -> str:
    """The string-keyed and integer-indexed frequency views of one subcircuit stay consistent over a history:
    read the views, record more readouts (second execution of the same job), read them again."""
    import jaqalpaq.emulator.backend as backend
    from jaqalpaq.emulator.unitary import UnitarySerializedEmulator
    from jaqalpaq.core.algorithm import expand_macros, fill_in_let, expand_subcircuits
    sx = ["circuit", ["register", "r", n], ["loop", 2, ["sequential_block", ["gate", "prepare_all"], ["gate", "g1", ("array_item", "r", i)], ["gate", "measure_all"]]]]
    picks = [p0, p1]
    calls = []

    def choice(m, p=None):
        k = picks[len(calls) % 2] % m
        tries = 0
        while p is not None and not (p[k] > 0) and tries < m:
            k = (k + 1) % m
            tries += 1
        calls.append(k)
        return k

    old = backend.choice
    backend.choice = choice
    try:
        c = build(sx, inject_pulses=NATIVE)
        job = UnitarySerializedEmulator()(expand_macros(fill_in_let(expand_subcircuits(c))))
        r1 = job.execute()
        sc = r1.subcircuits[0]
        first_str = dict(sc.relative_frequency_by_str)
        first_int = [float(x) for x in sc.relative_frequency_by_int]
        r2 = job.execute()
        second_str = dict(sc.relative_frequency_by_str)
        second_int = [float(x) for x in sc.relative_frequency_by_int]
        nread = len(sc.readouts)
    except JaqalError:
        return "~rejected"
    except Exception as ex:
        return f"non-JaqalError escaped: {exc(ex)}"
    finally:
        backend.choice = old
    for label, sv, iv, total in (("first", first_str, first_int, 2), ("second", second_str, second_int, 4)):
        if sum(iv) != total:
            return f"{label} read: integer view counts {sum(iv)} readouts, expected {total}"
        for v in range(1 << n):
            if sv[_bits(v, n)] != iv[v]:
                return f"{label} read: string view {sv[_bits(v, n)]} != integer view {iv[v]} at outcome {v}"
    if nread != 4:
        return f"{nread} readouts recorded, expected 4"
    for v in range(1 << n):
        if second_int[v] != sum(1 for k in calls if k == v):
            return f"relative frequency of {v} is {second_int[v]}, sampled {sum(1 for k in calls if k == v)} times"
    return ""
