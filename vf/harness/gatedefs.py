"""C18: gate definitions check calls; idle and stretched variants."""
from jaqalpaq.error import JaqalError
from jaqalpaq.core.gatedef import GateDefinition, BusyGateDefinition, IdleGateDefinition, add_idle_gates
from jaqalpaq.core.parameter import Parameter, ParamType
from jaqalpaq.core.register import Register, NamedQubit
from jaqalpaq.core.constant import Constant
from jaqalpaq.core.stretch import stretched_gates

from .common import exc

KINDS = [ParamType.QUBIT, ParamType.REGISTER, ParamType.INT, ParamType.FLOAT, ParamType.NONE]
KNAME = ["QUBIT", "REGISTER", "INT", "FLOAT", "NONE"]

# argument menu: (description, constructor from an int leaf v and a float leaf x)
_R = Register("r", 8)
_A = Register("a", alias_from=_R, alias_slice=slice(0, 4, 1))


def make_arg(sel, v, x):
    if sel == 0:
        return v, "int"
    if sel == 1:
        return float(v), "integral float"
    if sel == 2:
        return x, "float"
    if sel == 3:
        return _R[v % 8], "qubit"
    if sel == 4:
        return _A, "register"
    if sel == 5:
        return Constant("ci", v), "int constant"
    if sel == 6:
        return Constant("cf", v + 0.5), "non-integral float constant"
    if sel == 7:
        return Constant("cg", float(v)), "integral float constant"
    if sel == 8:
        return Parameter("pq", ParamType.QUBIT), "qubit parameter"
    if sel == 9:
        return Parameter("pi", ParamType.INT), "int parameter"
    if sel == 10:
        return Parameter("pf", ParamType.FLOAT), "float parameter"
    if sel == 11:
        return Parameter("pr", ParamType.REGISTER), "register parameter"
    if sel == 12:
        return Parameter("pn", ParamType.NONE), "untyped parameter"
    return "text", "string"


NSEL = 14
XGRID = [0.5, 2.0, -1.5, 1e16, -0.0]


def fits(kind, sel, v, x):
    """Acceptance table transcribed from the statement."""
    if kind == 4:      # untyped accepts anything
        return True
    if kind == 0:      # qubit
        return sel in (3, 8, 12)
    if kind == 1:      # register
        return sel in (4, 11, 12)
    if kind == 3:      # float: any number, or anything that denotes a number
        return sel in (0, 1, 2, 5, 6, 7, 9, 10, 12)
    # integer, including integral floats
    if sel in (0, 1, 5, 7, 9, 12):
        return True
    if sel == 2:
        return x == int(x) if (x == x and x - x == 0.0) else False
    return False


def c18_call(k0: int, k1: int, k2: int, nparams: int, nargs: int, s0: int, s1: int, s2: int, v: int, xi: int) -> str:
    x = XGRID[xi]
    kinds = [k0, k1, k2][:nparams]
    params = [Parameter(f"p{n}", KINDS[k]) for n, k in enumerate(kinds)]
    gd = GateDefinition("g", params)
    sels = [s0, s1, s2][:nargs]
    args = []
    for s in sels:
        a, _ = make_arg(s, v, x)
        args.append(a)
    want = nargs == nparams and all(fits(k, s, v, x) for k, s in zip(kinds, sels))
    class _What:
        def __str__(self):
            return f"g({', '.join(KNAME[k] for k in kinds)}) called with ({', '.join(make_arg(s, 0, 0.5)[1] for s in sels)}) v={v} x={x!r}"

        __format__ = lambda self, spec: str(self)
    what = _What()
    outcomes = []
    for style in ("positional", "keyword"):
        try:
            if style == "positional":
                st = gd(*args)
            else:
                if nargs == 0:
                    st = gd.call()
                else:
                    st = gd.call(**{f"p{n}": a for n, a in enumerate(args)})
            outcomes.append(st)
        except JaqalError:
            outcomes.append(None)
        except Exception as ex:
            return f"non-JaqalError escaped from the {style} call: {exc(ex)} :: {what}"
    pos, kw = outcomes
    if nargs >= 2 and pos is not None:
        # keywords written in another order than the declaration
        try:
            rev = gd.call(**{f"p{n}": a for n, a in reversed(list(enumerate(args)))})
        except Exception as ex:
            return f"keyword call in reversed order raised {exc(ex)} :: {what}"
        if not (rev == pos) or list(rev.parameters.keys()) != list(pos.parameters.keys()) or any(
                type(rev.parameters[k]) is not type(pos.parameters[k]) or not (rev.parameters[k] == pos.parameters[k] or rev.parameters[k] is pos.parameters[k])
                for k in pos.parameters):
            return f"keyword call in another order gives a different statement :: {what}"
    if (pos is None) != (kw is None):
        return f"positional call {'rejected' if pos is None else 'accepted'} but keyword call {'rejected' if kw is None else 'accepted'} :: {what}"
    if (pos is not None) != want:
        return f"call {'accepted' if pos is not None else 'rejected'}, expected {'accept' if want else 'reject'} :: {what}"
    if pos is not None:
        if not (pos == kw) or list(pos.parameters.keys()) != list(kw.parameters.keys()):
            return f"positional and keyword calls give different statements :: {what}"
        if list(pos.parameters.keys()) != [p.name for p in params]:
            return f"statement parameters are not in declaration order :: {what}"
        return ""
    return "~rejected"


def _spy(name):
    def unitary(*args):
        return (name,) + tuple(args)
    return unitary


def _parents():
    Q, F, I = ParamType.QUBIT, ParamType.FLOAT, ParamType.INT
    return {
        "ga": GateDefinition("ga", [Parameter("q", Q), Parameter("t", F)], ideal_unitary=_spy("ga")),
        "gb": GateDefinition("gb", [Parameter("q0", Q), Parameter("q1", Q), Parameter("t", F), Parameter("n", I)], ideal_unitary=_spy("gb")),
        "gc": GateDefinition("gc", [Parameter("q", Q)], ideal_unitary=_spy("gc")),
        "gd": GateDefinition("gd", [Parameter("q", Q)]),
        "prepare_all": BusyGateDefinition("prepare_all"),
        "measure_all": BusyGateDefinition("measure_all"),
    }


def c18_idle(which: int, v: int) -> str:
    """add_idle_gates: every active gate other than prepare/measure gets an idle gate with the same
    signature that uses no qubits and has no unitary; prepare/measure get none; the input is kept."""
    active = _parents()
    names = list(active)
    out = add_idle_gates(active)
    for n in names:
        if out.get(n) is not active[n]:
            return f"active gate {n} not kept"
    for n in ("prepare_all", "measure_all"):
        if "I_" + n in out:
            return f"idle gate made for {n}"
    n = names[which % 4]
    idle = out.get("I_" + n)
    if idle is None:
        return f"no idle gate for {n}"
    if idle.name != "I_" + n or idle.parameters != active[n].parameters:
        return f"idle gate of {n} has a different signature"
    if list(idle.used_qubits) != []:
        return f"idle gate of {n} uses qubits"
    if idle.ideal_unitary is not None:
        return f"idle gate of {n} has a unitary"
    args = [(_R[v % 8] if not p.classical else (v if p.kind == ParamType.INT else 0.5)) for p in active[n].parameters]
    try:
        st = idle(*args)
    except Exception as ex:
        return f"idle gate of {n} rejects its parent's arguments: {exc(ex)}"
    if list(st.used_qubits) != []:
        return f"idle statement of {n} uses qubits"
    return ""


def c18_stretch(which: int, with_idle: bool, sfx: int, t: float, s: float, n: int) -> str:
    """stretched_gates over a set of several gates: each stretched gate has its parent's parameters plus one
    trailing FLOAT and exactly its parent's ideal action for every stretch value."""
    parents = {k: g for k, g in _parents().items() if k not in ("prepare_all", "measure_all")}
    gates = dict(parents)
    if with_idle:
        gates = add_idle_gates(gates)
    suffix = [None, "_s", "_stretched"][sfx]
    try:
        new = stretched_gates(gates, suffix=suffix)
    except Exception as ex:
        return f"stretched_gates(suffix={suffix!r}, idle={with_idle}) raised {exc(ex)}"
    name = list(parents)[which % len(parents)]
    parent = parents[name]
    key = name + (suffix or "")
    g = new.get(key)
    if g is None:
        return f"no stretched gate under {key!r} (keys {sorted(map(str, new))})"
    if g.name != key:
        return f"stretched gate stored under {key!r} is named {g.name!r}"
    if [p.name for p in g.parameters[:-1]] != [p.name for p in parent.parameters] or [p.kind for p in g.parameters[:-1]] != [p.kind for p in parent.parameters]:
        return f"stretched {name} does not keep its parent's parameters"
    last = g.parameters[-1]
    if last.kind != ParamType.FLOAT:
        return f"trailing parameter of stretched {name} has kind {last.kind}"
    if len(parent.parameters) + 1 != len(g.parameters):
        return "not exactly one extra parameter"
    if len(parent.parameters) != len(_parents()[name].parameters):
        return f"stretched_gates modified the parameter list of its input gate {name}"
    classical = [t if p.kind == ParamType.FLOAT else n for p in parent.parameters if p.classical]
    if parent.ideal_unitary is None:
        if g.ideal_unitary is not None:
            return f"stretched {name} has a unitary although its parent has none"
    else:
        try:
            got = g.ideal_unitary(*classical, s)
        except Exception as ex:
            return f"unitary of stretched {name} raised {exc(ex)}"
        want = parent.ideal_unitary(*classical)
        if got != want:
            return f"stretched {name}: ideal action {got!r} != parent's {want!r}"
    if with_idle:
        ik = "I_" + name + (suffix or "")
        ig = new.get(ik)
        if ig is None:
            return f"no stretched idle gate under {ik!r}"
        if list(ig.used_qubits) != [] or ig.ideal_unitary is not None:
            return "stretched idle gate is not idle"
        if len(ig.parameters) != len(parent.parameters) + 1:
            return "stretched idle gate does not take the stretch factor"
    return ""
