"""C10 (pass algebra), C09 (subcircuit expansion), C11 (no mutation of inputs)."""
import itertools

from jaqalpaq.error import JaqalError
from jaqalpaq.core.circuitbuilder import build
from jaqalpaq.core.algorithm import expand_macros, fill_in_let, expand_subcircuits
from jaqalpaq.core.algorithm.fill_in_map import fill_in_map
from jaqalpaq.core.algorithm.unit_timing import normalize_blocks_with_unitary_timing
from jaqalpaq.core.algorithm.used_qubit_visitor import get_used_qubit_indices
from jaqalpaq.core.block import BlockStatement, LoopStatement
from jaqalpaq.core.gate import GateStatement
from jaqalpaq.core.gatedef import GateDefinition
from jaqalpaq.generator import generate_jaqal_program
from jaqalpaq.parser import parse_jaqal_string

from vf.spec import ref as R
from vf.spec.render import to_text
from .common import exc, program, try_ref, try_impl, statements, gate_values, header_equal, concretely, concrete
from .passes import _with_pulses, _overrides

PASSES = ["S", "L", "M", "A"]   # expand_subcircuits, fill_in_let, expand_macros, fill_in_map
ORDERS = [p for n in (1, 2, 3, 4) for p in itertools.permutations(PASSES, n)]


def _apply(p, c, ov):
    if p == "S":
        return expand_subcircuits(c)
    if p == "L":
        return fill_in_let(c, override_dict=ov)
    if p == "M":
        return expand_macros(c)
    return fill_in_map(c)


def expand_sub_tree(t, p="prepare_all", m="measure_all"):
    k = t[0]
    if k == "g":
        return t
    if k == "loop":
        return ("loop", t[1], [expand_sub_tree(c, p, m) for c in t[2]])
    if k == "sub":
        return ("seq", [("g", p, ())] + [expand_sub_tree(c, p, m) for c in t[2]] + [("g", m, ())])
    return (k, [expand_sub_tree(c, p, m) for c in t[1]])


def _parse(text, **kw):
    return parse_jaqal_string(text, autoload_pulses=False, **kw)


def c10_order(tname: str, order: int, twice: int, mask: int, o0: int, o1: int, **leaves) -> str:
    """Apply the passes ORDERS[order] in sequence (the pass at position `twice` is applied twice).
    Oracle: the meaning after the sequence (constants bound to override-else-declared when fill_in_let is
    not part of it) equals the reference meaning (with subcircuits expanded iff 'S' is part of it);
    applying a pass twice gives a circuit equal to applying it once; the result generates text that
    re-parses to the same meaning."""
    sx = program(tname, leaves)
    ov = _overrides(sx, mask, o0, o1)
    seq = ORDERS[order]
    ref, why = try_ref(sx, ov)
    try:
        c = build(sx)
    except JaqalError:
        return "~rejected at build"
    cur = c
    try:
        for n, p in enumerate(seq):
            if p == "A" and "L" not in seq[:n]:
                return "~fill_in_map not applicable before let substitution"
            nxt = _apply(p, cur, ov)
            if n == twice:
                again = _apply(p, nxt, ov)
                if not (again == nxt):
                    return f"pass {p} is not idempotent :: {sx} {ov}"
            cur = nxt
    except JaqalError as ex:
        if ref is None:
            return "~rejected"
        if p == "A":
            return "~fill_in_map declined"     # documented: aliases as macro arguments / parameter indices
        return f"valid program rejected by pass {p} in order {seq}: {ex} :: {sx} {ov}"
    except Exception as ex:
        return f"non-JaqalError escaped from pass {p} in order {seq}: {exc(ex)} :: {sx} {ov}"
    if ref is None:
        return "~reference invalid (" + why + ")"
    want = expand_sub_tree(ref) if "S" in seq else ref
    m, why = try_impl(cur, {} if "L" in seq else ov)
    if m is None:
        return f"result of {seq} has no meaning ({why}) :: {sx} {ov}"
    if not R.same(m, want):
        return f"meaning after {seq}: {R.canon(m)} != {R.canon(want)} :: {sx} {ov}"
    # legal after: generates text that re-parses to the same meaning
    try:
        text = concrete(generate_jaqal_program(cur))
        back = concretely(_parse, text)
    except JaqalError as ex:
        return f"result of {seq} does not re-parse ({ex}): {text!r}"
    except Exception as ex:
        return f"non-JaqalError escaped generating/re-parsing the result of {seq}: {exc(ex)} :: {sx}"
    m2, why = try_impl(back, {} if "L" in seq else ov)
    if m2 is None or not R.same(m2, want):
        return f"re-parse of the result of {seq} changed meaning: {m2} != {R.canon(want)}: {text!r}"
    return ""


def c10_flags(tname: str, flags: int, mask: int, o0: int, o1: int, **leaves) -> str:
    """parse_jaqal_string(expand_macro, expand_let, expand_let_map) == the explicit passes on the plain parse."""
    sx = program(tname, leaves)
    ov = _overrides(sx, mask, o0, o1)
    text = concrete(to_text(sx))
    em, el, elm = bool(flags & 1), bool(flags & 2), bool(flags & 4)
    try:
        plain = concretely(_parse, text)
    except JaqalError:
        return "~rejected"
    r1 = r2 = None
    e1 = e2 = None
    try:
        r1 = concretely(_parse, text, override_dict=ov, expand_macro=em, expand_let=el, expand_let_map=elm)
    except JaqalError as ex:
        e1 = ex
    except Exception as ex:
        return f"non-JaqalError escaped from parse with flags {flags}: {exc(ex)}: {text!r}"
    try:
        c = plain
        if em:
            c = expand_macros(c, preserve_definitions=True)
        if elm:
            c = fill_in_map(fill_in_let(c, override_dict=ov))
        elif el:
            c = fill_in_let(c, override_dict=ov)
        r2 = c
    except JaqalError as ex:
        e2 = ex
    except Exception as ex:
        return f"non-JaqalError escaped from explicit passes {flags}: {exc(ex)}: {text!r}"
    if (e1 is None) != (e2 is None):
        return f"parser flags {flags} {'rejected' if e1 else 'accepted'} but explicit passes {'rejected' if e2 else 'accepted'}: {text!r} {ov}"
    if e1 is not None:
        return "~rejected"
    if not (r1 == r2):
        return f"parser flags {flags} differ from explicit passes: {text!r} {ov}"
    return ""


# ---------------------------------------------------------------------------------------
# C09

def c09_expand(tname: str, defs: int, **leaves) -> str:
    """expand_subcircuits: each subcircuit block becomes { prepare ... measure }, nothing else changes.
    defs: 0 default names, 1 caller-supplied definitions, 2 caller-supplied names."""
    sx = program(tname, leaves)
    ref, why = try_ref(sx)
    try:
        c = build(sx)
    except JaqalError:
        return "~rejected at build"
    pn, mn = "prepare_all", "measure_all"
    try:
        if defs == 0:
            out = expand_subcircuits(c)
        elif defs == 1:
            pn, mn = "myprep", "mymeas"
            out = expand_subcircuits(c, prepare_def=GateDefinition(pn), measure_def=GateDefinition(mn))
        else:
            pn, mn = "p_named", "m_named"
            out = expand_subcircuits(c, prepare_def=pn, measure_def=mn)
    except JaqalError as ex:
        return "~rejected" if ref is None else f"valid program rejected by expand_subcircuits: {ex} :: {sx}"
    except Exception as ex:
        return f"non-JaqalError escaped from expand_subcircuits: {exc(ex)} :: {sx}"
    for s in list(statements(out.body)) + [x for mac in out.macros.values() for x in statements(mac.body)]:
        if isinstance(s, BlockStatement) and s.subcircuit:
            return f"subcircuit block left after expansion :: {sx}"
    if ref is None:
        return "~reference invalid (" + why + ")"
    m, why = try_impl(out)
    if m is None:
        return f"expanded circuit has no meaning ({why}) :: {sx}"
    want = expand_sub_tree(ref, pn, mn)
    if not R.same(m, want):
        return f"expand_subcircuits: {R.canon(m)} != {R.canon(want)} :: {sx}"
    h = header_equal(c, out, macros=False)
    if h:
        return f"expand_subcircuits: {h} :: {sx}"
    if list(out.macros) != list(c.macros):
        return "expand_subcircuits: macros lost"
    return ""


# ---------------------------------------------------------------------------------------
# C11

def snapshot(circ):
    """Deep structural snapshot of everything reachable from the circuit: every attribute of every core object,
    order and content of every container, and which objects are shared (as traversal-order references)."""
    seen = {}

    def snap(o, depth=0):
        from jaqalpaq.core.circuit import Circuit
        from jaqalpaq.core.macro import Macro
        from jaqalpaq.core.register import Register, NamedQubit
        from jaqalpaq.core.constant import Constant
        from jaqalpaq.core.parameter import Parameter
        from jaqalpaq.core.gatedef import AbstractGate
        from jaqalpaq.core.usepulses import UsePulsesStatement
        if depth > 60:
            return "deep"
        if isinstance(o, (int, float, str, bool)) or o is None or o is all:
            return repr(o)
        if id(o) in seen:
            return ("ref", seen[id(o)])
        seen[id(o)] = len(seen)
        if isinstance(o, dict):
            return ("dict", [(k, snap(v, depth + 1)) for k, v in o.items()])
        if isinstance(o, (list, tuple)):
            return (type(o).__name__, [snap(v, depth + 1) for v in o])
        if isinstance(o, slice):
            return ("slice", snap(o.start, depth + 1), snap(o.stop, depth + 1), snap(o.step, depth + 1))
        if isinstance(o, (Circuit, BlockStatement, LoopStatement, GateStatement, Macro, Register, NamedQubit, Constant, Parameter, AbstractGate, UsePulsesStatement)):
            return (type(o).__name__, [(k, snap(v, depth + 1)) for k, v in sorted(vars(o).items()) if not callable(v)])
        return ("obj", type(o).__name__)

    return snap(circ)


OPS = ["expand_macros", "expand_macros_keep", "fill_in_let", "fill_in_let_ov", "fill_in_map", "expand_subcircuits", "unit_timing",
       "used_qubits", "generate", "emulate", "output_list"]


def _run_op(op, c, ov):
    from jaqalpaq.core.result import parse_jaqal_output_list
    if op == "expand_macros":
        return expand_macros(c)
    if op == "expand_macros_keep":
        return expand_macros(c, preserve_definitions=True)
    if op == "fill_in_let":
        return fill_in_let(c)
    if op == "fill_in_let_ov":
        return fill_in_let(c, override_dict=ov)
    if op == "fill_in_map":
        return fill_in_map(fill_in_let(c))
    if op == "expand_subcircuits":
        return expand_subcircuits(c)
    if op == "unit_timing":
        return normalize_blocks_with_unitary_timing(c)
    if op == "used_qubits":
        return sorted((k, sorted(v)) for k, v in get_used_qubit_indices(expand_macros(fill_in_let(c))).items())
    if op == "generate":
        return generate_jaqal_program(c)
    if op == "emulate":
        from jaqalpaq.run import run_jaqal_circuit
        res = run_jaqal_circuit(c)
        return [[round(float(p), 9) for p in sc.simulated_probability_by_int] for sc in res.subcircuits]
    if op == "output_list":
        res = parse_jaqal_output_list(c, [0] * 64)
        return [r.as_int for r in res.readouts][:0] + [len(res.subcircuits)]
    raise ValueError(op)


def _result_key(r):
    from jaqalpaq.core.circuit import Circuit
    if isinstance(r, Circuit):
        return ("circuit", generate_jaqal_program(r), impl_or_none(r))
    return r


def impl_or_none(c):
    m, _ = try_impl(c)
    return None if m is None else repr(R.canon(m))


def _gate_set(native):
    """0: no native gates (anonymous gates); 1: the harness gate set; 2: the same set without the bounding gates
    prepare_all / measure_all (a custom gate set that does not define them)."""
    from .gates import NATIVE
    if not native:
        return None
    if native == 2:
        return {k: v for k, v in NATIVE.items() if k not in ("prepare_all", "measure_all")}
    return NATIVE


def _fresh_result(sx, native, name, ov):
    fresh = build(sx, inject_pulses=_gate_set(native))
    try:
        return None, _result_key(_run_op(name, fresh, ov))
    except Exception as ex:
        return ex, None


def c11_history(tname: str, native: int, op1: int, op2: int, op3: int, **leaves) -> str:
    """Run up to three library calls on one shared circuit object.  After each call the deep snapshot of
    the circuit must be unchanged, and each result must equal the result of the same call on a freshly
    built copy."""
    from .gates import NATIVE, wrap_for_emulator
    sx = program(tname, leaves)
    if native == 1:
        sx = wrap_for_emulator(sx)
    ov = _overrides(sx, 1, 1, 1)
    try:
        shared = build(sx, inject_pulses=_gate_set(native))
    except JaqalError:
        return "~rejected at build"
    except Exception as ex:
        return f"non-JaqalError escaped at build: {exc(ex)} :: {sx}"
    before = concretely(snapshot, shared)
    done = 0
    for op in (op1, op2, op3):
        if op < 0:
            continue
        name = OPS[op]
        err = res = None
        try:
            res = concretely(_run_op, name, shared, ov) if name in ("emulate", "output_list") else _run_op(name, shared, ov)
        except JaqalError as ex:
            err = ex
        except Exception as ex:
            if name == "emulate" and isinstance(ex, (RuntimeError, NotImplementedError)):
                err = ex
            else:
                return f"non-JaqalError escaped from {name}: {exc(ex)} :: {sx}"
        after = concretely(snapshot, shared)
        if after != before:
            return f"{name} modified its input circuit :: {sx}"
        # the same call on a freshly built copy is the oracle: evaluated natively on the realised program
        ferr, fkey = concretely(_fresh_result, sx, native, name, ov)
        if (err is None) != (ferr is None):
            return f"{name} on the shared circuit {'failed' if err else 'succeeded'} but on a fresh copy {'failed' if ferr else 'succeeded'} :: {sx}"
        if err is None:
            if concretely(_result_key, res) != fkey:
                return f"{name} gives a different result on the shared circuit than on a fresh copy :: {sx}"
            done += 1
    return "" if done else "~all calls rejected"
