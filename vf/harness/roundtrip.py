"""C01 (generate/parse round trip), C20 (circuit equality), C10 (pass algebra), C09 (subcircuits)."""
from jaqalpaq.error import JaqalError
from jaqalpaq.core.circuitbuilder import build
from jaqalpaq.core.algorithm import expand_macros, fill_in_let, expand_subcircuits
from jaqalpaq.core.algorithm.fill_in_map import fill_in_map
from jaqalpaq.core.block import BlockStatement, LoopStatement
from jaqalpaq.core.gate import GateStatement
from jaqalpaq.generator import generate_jaqal_program
from jaqalpaq.parser import parse_jaqal_string

from vf.spec import ref as R
from vf.spec.render import to_text, to_builder
from vf.spec.templates import T, FLOATS
from .common import exc, program, try_ref, try_impl, statements, gate_values, header_equal, concretely, concrete
from .passes import _with_pulses


def _parse(text, **kw):
    return parse_jaqal_string(text, autoload_pulses=False, **kw)


def _front(sx, via):
    """Build the program through one of the front ends: 0 S-expression build(), 1 parser on our own
    rendering, 2 object-oriented CircuitBuilder."""
    if via == 0:
        return build(sx)
    if via == 1:
        return concretely(_parse, to_text(sx))
    return to_builder(sx).build()


def c01_roundtrip(tname: str, via: int, pulses: bool, **leaves) -> str:
    sx = _with_pulses(program(tname, leaves), pulses)
    try:
        c = _front(sx, via)
    except JaqalError:
        return "~rejected"
    except Exception as ex:
        return f"non-JaqalError escaped while building: {exc(ex)} :: {sx}"
    try:
        text = concrete(generate_jaqal_program(c))
    except Exception as ex:
        return f"generator raised {exc(ex)} :: {sx}"
    try:
        c2 = concretely(_parse, text)
    except JaqalError as ex:
        return f"generated text is rejected by the parser ({ex}): {text!r}"
    except Exception as ex:
        return f"non-JaqalError escaped while re-parsing: {exc(ex)}: {text!r}"
    if not (c2 == c):
        return f"re-parsed circuit differs from the original: {text!r}"
    if not (c == c2):
        return f"equality not symmetric on re-parse: {text!r}"
    m1, w1 = try_impl(c)
    m2, w2 = try_impl(c2)
    if (m1 is None) != (m2 is None) or (m1 is not None and not R.same(m1, m2)):
        return f"meaning changed by the round trip: {m1} != {m2}: {text!r}"
    text2 = concretely(generate_jaqal_program, c2)
    if text2 != text:
        return f"second generation differs: {text!r} vs {text2!r}"
    return ""


def c01_float(size: int, x: float) -> str:
    """A float let value and gate argument of any magnitude must survive the round trip."""
    sx = ["circuit", ["let", "y", x], ["register", "r", size], ["gate", "h1", ("array_item", "r", 0), "y"], ["gate", "n1", x]]
    try:
        c = build(sx)
    except JaqalError:
        return "~rejected"
    text = concrete(generate_jaqal_program(c))
    try:
        c2 = concretely(_parse, text)
    except JaqalError as ex:
        return f"generated text is rejected by the parser ({ex}): {text!r}"
    except Exception as ex:
        return f"non-JaqalError escaped while re-parsing: {exc(ex)}: {text!r}"
    if not (c2 == c):
        return f"re-parsed circuit differs: {text!r}"
    if concretely(generate_jaqal_program, c2) != text:
        return f"second generation differs: {text!r}"
    return ""


# ---------------------------------------------------------------------------------------
# C20

def c20_leaf(tname: str, which: str, va: int, vb: int, **leaves) -> str:
    """Two copies of a program that differ in one leaf (a vs b)."""
    la = dict(leaves)
    lb = dict(leaves)
    la[which] = va
    lb[which] = vb
    sa, sb = program(tname, la), program(tname, lb)
    try:
        ca, cb = build(sa), build(sb)
    except JaqalError:
        return "~rejected"
    except Exception as ex:
        return f"non-JaqalError escaped: {exc(ex)}"
    if not (ca == ca) or not (cb == cb):
        return "equality is not reflexive"
    e1, e2 = (ca == cb), (cb == ca)
    if e1 != e2:
        return f"equality is not symmetric :: {sa} / {sb}"
    for other in (None, 0, "x", [], ca.body):
        try:
            if ca == other:
                return f"circuit equal to {other!r}"
        except Exception as ex:
            return f"comparison with {other!r} raised {exc(ex)}"
    # meanings from the program texts (reference), so that a builder that conflates two programs cannot hide it
    ma, _ = try_ref(sa)
    mb, _ = try_ref(sb)
    decl_same = (sa[1:_nhead(sa)] == sb[1:_nhead(sb)])
    if e1:
        if not decl_same:
            return f"equal circuits with different declarations :: {sa} / {sb}"
        if (ma is None) != (mb is None) or (ma is not None and not R.same(ma, mb)):
            return f"equal circuits with different meaning :: {sa} / {sb}"
    else:
        if sa == sb:
            return f"identical programs compare unequal :: {sa}"
    if va != vb and e1:
        # a single-leaf change that alters the program text: it must alter equality unless nothing the
        # program means or declares changed
        if not decl_same or (ma is not None and mb is not None and not R.same(ma, mb)):
            return f"mutant compares equal :: {sa} / {sb}"
    return ""


def _nhead(sx):
    n = 1
    while n < len(sx) and sx[n][0] in ("let", "register", "map", "usepulses"):
        n += 1
    return n


MUTATIONS = ["gate_name", "block_kind", "drop_stmt", "loop_to_block", "sub_flag", "sub_count", "dup_stmt", "swap_args", "macro_param"]


def _mutate(sx, mut, k):
    """Apply structural mutation `mut` at its k-th opportunity; returns the mutant or None."""
    count = [0]

    def hit():
        count[0] += 1
        return count[0] - 1 == k

    def walk(st, top=False):
        if not isinstance(st, list):
            return st
        kind = st[0]
        if kind == "gate":
            if mut == "gate_name" and hit():
                return ["gate", st[1] + "x"] + st[2:]
            if mut == "swap_args" and len(st) >= 4 and st[2] != st[3] and hit():
                return ["gate", st[1], st[3], st[2]] + st[4:]
            return st
        if kind in ("sequential_block", "parallel_block"):
            if mut == "block_kind" and len(st) > 2 and hit():
                other = "parallel_block" if kind == "sequential_block" else "sequential_block"
                return [other] + [walk(s) for s in st[1:]]
            kids = [walk(s) for s in st[1:]]
            if mut == "drop_stmt" and len(kids) > 0 and hit():
                kids = kids[:-1]
            if mut == "dup_stmt" and len(kids) > 0 and hit():
                kids = kids + [kids[-1]]
            return [kind] + kids
        if kind == "loop":
            if mut == "loop_to_block" and hit():
                return walk(st[2])
            return ["loop", st[1], walk(st[2])]
        if kind == "subcircuit_block":
            if mut == "sub_flag" and hit():
                return ["sequential_block"] + [walk(s) for s in st[2:]]
            if mut == "sub_count" and hit():
                return ["subcircuit_block", 7] + [walk(s) for s in st[2:]]
            return st[:2] + [walk(s) for s in st[2:]]
        if kind == "macro":
            if mut == "macro_param" and len(st) > 3 and hit():
                # rename the parameters consistently (list and body): same meaning, different declaration
                ren = {p: p + "x" for p in st[2:-1]}

                def rn(x):
                    if isinstance(x, str):
                        return ren.get(x, x)
                    if isinstance(x, tuple):
                        return tuple(rn(y) for y in x)
                    if isinstance(x, list):
                        return [x[0]] + [rn(y) for y in x[1:]] if x and x[0] == "gate" and len(x) > 1 else [rn(y) if i else y for i, y in enumerate(x)]
                    return x

                def body(b):
                    if not isinstance(b, list):
                        return b
                    if b[0] == "gate":
                        return ["gate", b[1]] + [rn(a) for a in b[2:]]
                    if b[0] == "loop":
                        return ["loop", rn(b[1]), body(b[2])]
                    if b[0] == "subcircuit_block":
                        return ["subcircuit_block", rn(b[1])] + [body(y) for y in b[2:]]
                    return [b[0]] + [body(y) for y in b[1:]]

                return st[:2] + [ren[p] for p in st[2:-1]] + [body(st[-1])]
            return st[:-1] + [walk(st[-1])]
        return st

    new = [sx[0]] + [walk(s, True) for s in sx[1:]]
    if mut in ("drop_stmt", "dup_stmt") and count[0] <= k:
        # top level body
        body_start = next((i for i, s in enumerate(new) if i > 0 and s[0] not in ("let", "register", "map", "usepulses", "macro")), None)
        if body_start is not None and count[0] == k:
            count[0] += 1
            return new[:-1] if mut == "drop_stmt" else new + [new[-1]]
    return new if count[0] > k else None


def c20_struct(tname: str, m_kind: str, m_site: int, **leaves) -> str:
    """A structural single-token mutant (other gate name, block kind, dropped/duplicated statement,
    loop removed, subcircuit flag/count, swapped arguments) must compare unequal whenever its meaning
    (or a macro it declares) differs."""
    sx = program(tname, leaves)
    mx = _mutate(sx, m_kind, m_site)
    mut, k = m_kind, m_site
    if mx is None:
        return "~no such mutation site"
    try:
        c = build(sx)
        m = build(mx)
    except JaqalError:
        return "~rejected"
    except Exception as ex:
        return f"non-JaqalError escaped: {exc(ex)} :: {mx}"
    e1, e2 = (c == m), (m == c)
    if e1 != e2:
        return f"equality is not symmetric :: {sx} / {mx}"
    ma, _ = try_ref(sx)
    mb, _ = try_ref(mx)
    macros_same = [s for s in sx[1:] if s[0] == "macro"] == [s for s in mx[1:] if s[0] == "macro"]
    if e1 and (not macros_same or (ma is not None and mb is not None and not R.same(ma, mb))):
        return f"mutant ({mut}#{k}) compares equal :: {sx} / {mx}"
    if e1 and (ma is None) != (mb is None):
        return f"mutant ({mut}#{k}) compares equal although only one has a meaning :: {sx} / {mx}"
    return ""


def c20_gate_float(a: float, b: float, extra: bool) -> str:
    """GateStatement equality on float arguments: equal <=> arguments equal by value (NaN equal to NaN);
    a longer argument list is never equal to its prefix."""
    from jaqalpaq.core.gatedef import GateDefinition
    from jaqalpaq.core.parameter import Parameter
    import math
    g1 = GateDefinition("g", [Parameter("a", None)])
    g2 = GateDefinition("g", [Parameter("a", None), Parameter("b", None)])
    x = g1(a)
    y = g2(b, 0.0) if extra else g1(b)
    want = (not extra) and (a == b or (math.isnan(a) and math.isnan(b)))
    got = (x == y)
    if got != (y == x):
        return f"GateStatement equality not symmetric for {a!r}, {b!r}"
    if got != want:
        return f"g({a!r}) == g({b!r}{', 0.0' if extra else ''}) is {got}"
    return ""


def c20_core_int(kind: int, a: int, b: int) -> str:
    """Equality of core objects that differ in one integer: loop count, subcircuit count, register size,
    qubit index, alias bounds, constant value."""
    from jaqalpaq.core.register import Register, NamedQubit
    from jaqalpaq.core.constant import Constant
    from jaqalpaq.core.gatedef import GateDefinition
    r = Register("r", 40)
    g = GateDefinition("g")()

    def mk(v):
        if kind == 0:
            return LoopStatement(v, BlockStatement(statements=[g]))
        if kind == 1:
            return BlockStatement(subcircuit=True, iterations=v, statements=[g])
        if kind == 2:
            return Register("q", v)
        if kind == 3:
            return NamedQubit("x", r, v)
        if kind == 4:
            return Register("s", alias_from=r, alias_slice=slice(v, 20, 1))
        if kind == 5:
            return Register("s", alias_from=r, alias_slice=slice(0, v, 1))
        if kind == 6:
            return Register("s", alias_from=r, alias_slice=slice(0, 20, v))
        if kind == 7:
            return Constant("c", v)
        return GateDefinition("h", [])(*[]) if False else LoopStatement(Constant("c", v), BlockStatement(statements=[g]))

    try:
        x, y = mk(a), mk(b)
    except JaqalError:
        return "~rejected"
    got = (x == y)
    if got != (y == x):
        return f"equality not symmetric kind={kind} {a} {b}"
    if got != (a == b):
        return f"kind {kind}: objects built from {a} and {b} compare {'equal' if got else 'unequal'}"
    return ""


def c20_twice(where: int, as_float: bool, via: int, a: int, b: int) -> str:
    """One program calls the same gate twice with numeric arguments a and b (in the main body, inside a
    loop, or inside a macro body).  The built statements must carry a and b respectively, and the program
    must compare unequal to the one calling the gate with a both times exactly when a != b."""
    a, b = concrete(a), concrete(b)      # the gate memoizer hashes the arguments, which pins them anyway
    return concretely(_c20_twice, where, as_float, via, a, b)


def _c20_twice(where, as_float, via, a, b):
    va, vb = (float(a), float(b)) if as_float else (a, b)

    def prog(x, y):
        g1, g2 = ["gate", "n1", x], ["gate", "n1", y]
        if where == 0:
            body = [g1, g2]
        elif where == 1:
            body = [["loop", 2, ["sequential_block", g1, g2]]]
        else:
            body = [["macro", "m", "p", ["sequential_block", g1, ["gate", "g1", "p"], g2]], ["gate", "m", ("array_item", "r", 0)]]
        return ["circuit", ["register", "r", 2]] + body
    try:
        c_ab = _front(prog(va, vb), via)
        c_aa = _front(prog(va, va), via)
    except JaqalError as ex:
        return f"valid program rejected: {ex}"
    root = c_ab.body if where < 2 else c_ab.macros["m"].body
    got = [list(s.parameters.values())[0] for s in statements(root) if isinstance(s, GateStatement) and s.name == "n1"]
    vals = []
    for g in got:
        try:
            vals.append(float(g))
        except Exception:
            vals.append(g)
    if vals != [float(a), float(b)]:
        return f"'n1 {va}; n1 {vb}' built as n1 {vals[0] if vals else '?'}; n1 {vals[1] if len(vals) > 1 else '?'}"
    eq = (c_ab == c_aa)
    if eq != (a == b):
        return f"program 'n1 {va}; n1 {vb}' == program 'n1 {va}; n1 {va}' is {eq}"
    return ""
