"""C17 (three front ends), C07 (lexical scoping), C19 (unit timing)."""
from jaqalpaq.error import JaqalError
from jaqalpaq.core.circuitbuilder import build
from jaqalpaq.core.algorithm import expand_macros
from jaqalpaq.core.algorithm.unit_timing import normalize_blocks_with_unitary_timing
from jaqalpaq.core.block import BlockStatement, LoopStatement
from jaqalpaq.core.gate import GateStatement
from jaqalpaq.parser import parse_jaqal_string
from jaqalpaq.qsyntax import circuit as qcircuit

from vf.spec import ref as R
from vf.spec.render import to_text, to_builder
from vf.spec.templates import FLOATS
from .common import exc, try_ref, try_impl, concretely, concrete, header_equal

NAMES = [None, "__r0", "__r1", "__c0", "__c1", "a", "__c2"]
AI = lambda n, i: ("array_item", n, i)


def q_program(shape, L1, L2, L3, RG, size, v, k, x):
    """The program as an S-expression over the placeholder names L1, L2, L3 (lets) and RG (register)."""
    f = FLOATS[x]
    head = ["circuit", ["let", L1, v], ["let", L2, f], ["let", L3, k]]
    if shape == 3:
        head.append(["register", RG, L1])
    else:
        head.append(["register", RG, size])
    g = ["gate", "g1", AI(RG, 0)]
    if shape == 0:
        body = [g, ["gate", "h1", AI(RG, L1), L2], ["loop", k, ["sequential_block", g, ["parallel_block", g, ["gate", "n1", L2]]]], ["gate", "n1", 2.5]]
    elif shape == 1:
        body = [["gate", "prepare_all"], g, ["loop", L1, ["sequential_block", ["gate", "h1", AI(RG, 0), f]]], ["gate", "measure_all"]]
    elif shape == 2:
        body = [["subcircuit_block", L1, g, ["gate", "n1", L2]], ["loop", L3, ["sequential_block", ["subcircuit_block", k, ["parallel_block", g], g]]]]
    elif shape == 3:
        body = [["sequential_block", g, ["parallel_block", ["sequential_block", g, g], ["gate", "n1", v]]], ["parallel_block", ["gate", "n1", L2]]]
    elif shape == 4:
        body = []
    elif shape == 6:
        # begins with a loop that begins with an ordinary gate; a subcircuit only comes later: wrapped
        body = [["loop", L3, ["sequential_block", g, ["subcircuit_block", L1, g]]], ["gate", "n1", L2]]
    elif shape == 8:
        # begins with a subcircuit whose body is empty: not wrapped
        body = [["subcircuit_block", k], ["subcircuit_block", L1, g, ["gate", "n1", L2]]]
    elif shape == 9:
        # begins with a loop whose first statement is an empty subcircuit: not wrapped
        body = [["loop", L3, ["sequential_block", ["subcircuit_block", ""], ["subcircuit_block", L1, g]]], ["subcircuit_block", "", ["gate", "n1", L2]]]
    elif shape == 7:
        # begins with a block in which prepare_all is not the first statement: wrapped
        body = [["sequential_block", ["parallel_block", g], ["gate", "prepare_all"], ["subcircuit_block", k, g]], ["gate", "n1", 2.5]]
    else:
        body = [["sequential_block", ["gate", "prepare_all"], g], ["gate", "measure_all"]]
    return head + body


def run_qsyntax(sx, lname, rname, let_from_let=False):
    """Issue the Q-syntax calls for the program; lname/rname map placeholder names to the user-chosen name
    (or None for anonymous)."""

    @qcircuit
    def prog(Q):
        env = {}
        for st in sx[1:]:
            k = st[0]
            if k == "let":
                val = st[2]
                if let_from_let and env:
                    # a let defined from another let (a convenience Q-syntax offers)
                    first = next(iter(env.values()))
                    if isinstance(val, int) and not isinstance(val, bool):
                        pass
                env[st[1]] = Q.let(val, lname[st[1]])
            elif k == "register":
                size = env[st[2]] if isinstance(st[2], str) else st[2]
                env[st[1]] = Q.register(size, rname[st[1]])
            else:
                emit(Q, env, st)

    def val(env, a):
        if isinstance(a, tuple) and a[0] == "array_item":
            idx = env[a[2]] if isinstance(a[2], str) else a[2]
            return env[a[1]][idx]
        if isinstance(a, str):
            return env[a]
        return a

    def emit(Q, env, st):
        k = st[0]
        if k == "gate":
            getattr(Q, st[1])(*[val(env, a) for a in st[2:]])
        elif k == "loop":
            with Q.loop(val(env, st[1])):
                for s in st[2][1:]:
                    emit(Q, env, s)
        elif k == "sequential_block":
            with Q.sequential():
                for s in st[1:]:
                    emit(Q, env, s)
        elif k == "parallel_block":
            with Q.parallel():
                for s in st[1:]:
                    emit(Q, env, s)
        elif k == "subcircuit_block":
            with (Q.subcircuit() if st[1] == "" else Q.subcircuit(val(env, st[1]))):
                for s in st[2:]:
                    emit(Q, env, s)
        else:
            raise ValueError(k)

    return prog()


def _starts_with_prepare(st):
    k = st[0]
    if k == "gate":
        return st[1] == "prepare_all"
    if k == "subcircuit_block":
        return True
    if k in ("sequential_block", "parallel_block"):
        return len(st) > 1 and _starts_with_prepare(st[1])
    if k == "loop":
        return len(st[2]) > 1 and _starts_with_prepare(st[2][1])
    return False


def c17_three(shape: int, n1: int, n2: int, n3: int, nr: int, size: int, v: int, k: int, x: int) -> str:
    user = {"L1": NAMES[n1], "L2": NAMES[n2], "L3": NAMES[n3], "RG": NAMES[nr]}
    sx = q_program(shape, "L1", "L2", "L3", "RG", size, v, k, x)
    given = [u for u in user.values() if u is not None]
    dup = len(set(given)) != len(given)
    # is the program itself valid?  (judge on a copy with distinct names)
    probe = q_program(shape, "u1", "u2", "u3", "ur", size, v, k, x)
    ref, why = try_ref(probe)
    try:
        cq = run_qsyntax(sx, {"L1": user["L1"], "L2": user["L2"], "L3": user["L3"]}, {"RG": user["RG"]})
    except JaqalError as ex:
        if dup or ref is None:
            return "~rejected"
        return f"Q-syntax rejects a valid program ({ex}) with user names {user} :: {probe}"
    except Exception as ex:
        return f"non-JaqalError escaped from Q-syntax: {exc(ex)} with user names {user} :: {probe}"
    if dup:
        return f"duplicate user names {user} accepted"
    if ref is None:
        return "~reference invalid"
    lets = list(cq.constants)
    regs = [n for n, r in cq.registers.items()]
    if len(lets) != 3 or len(regs) != 1:
        return f"{len(lets)} constants / {len(regs)} registers"
    actual = {"L1": lets[0], "L2": lets[1], "L3": lets[2], "RG": regs[0]}
    for ph, nm in user.items():
        if nm is not None and actual[ph] != nm:
            return f"user name {nm!r} not used for {ph} (got {actual[ph]!r})"
    if len(set(actual.values())) != 4:
        return f"names collide: {actual}"
    for ph, nm in actual.items():
        if user[ph] is None and nm in given:
            return f"auto-generated name {nm!r} collides with a user-chosen name {given}"
    # the same program with those names through the other two front ends: the oracle side, evaluated natively
    return concretely(_c17_compare, cq, shape, actual, size, v, k, x)


def _c17_compare(cq, shape, actual, size, v, k, x):
    named = q_program(shape, actual["L1"], actual["L2"], actual["L3"], actual["RG"], size, v, k, x)
    body_start = 5
    body = named[body_start:]
    wrap = len(body) == 0 or not _starts_with_prepare(body[0])
    if wrap:
        named = named[:body_start] + [["gate", "prepare_all"]] + body + [["gate", "measure_all"]]
    try:
        ct = parse_jaqal_string(to_text(named), autoload_pulses=False)
        cb = to_builder(named).build()
    except JaqalError as ex:
        return f"the other front ends reject the program: {ex} :: {named}"
    if not (cq == ct):
        return f"Q-syntax circuit differs from the parsed text (implicit prepare/measure expected: {wrap}) :: {named}"
    if not (cb == ct):
        return f"builder circuit differs from the parsed text :: {named}"
    try:
        m1 = R.impl_meaning(cq)
    except R.Invalid:
        m1 = None
    try:
        m2 = R.impl_meaning(ct)
    except R.Invalid:
        m2 = None
    if (m1 is None) != (m2 is None) or (m1 is not None and not R.same(m1, m2)):
        return f"meaning differs between Q-syntax and text :: {named}"
    return ""


def c17_let_of_let(v: int) -> str:
    """Q.let accepts an existing constant as value (a documented convenience)."""
    @qcircuit
    def prog(Q):
        a = Q.let(v, "a")
        b = Q.let(a, "b")
        r = Q.register(2, "r")
        Q.n1(b)

    try:
        c = prog()
    except JaqalError as ex:
        return f"let from let rejected: {ex}"
    except Exception as ex:
        return f"non-JaqalError escaped from Q.let(constant): {exc(ex)}"
    if c.constants["b"].value != v:
        return f"let b has value {c.constants['b'].value}, expected {v}"
    return ""


# ---------------------------------------------------------------------------------------
# C07

POOL = ["a", "b", "c", "d", "e"]


def c07_scope(l: int, r: int, al: int, p1: int, p2: int, x: int, y: int, z: int, where: int) -> str:
    """Header names let L, register R, alias A and macro parameters P1, P2 are drawn from a pool of five, so
    the solver picks the collisions.  The statement  g X[Y] Z  (array name, index name and numeric name are
    the names of three of those five roles) is placed in the macro body and, textually identical, in the main body (before
    or after the macro call, and inside a second macro with other parameters)."""
    L, Rg, A = POOL[l], POOL[r], POOL[al]
    P1, P2 = POOL[p1], POOL[p2]
    roles = [L, Rg, A, P1, P2]
    X, Y, Z = roles[x], roles[y], roles[z]
    stmt = ["gate", "h1", AI(X, Y), Z]
    # `qs` is a single-qubit alias indexed by the let: inside the macro it still denotes Rg[<let value>], whatever a
    # parameter of the same name as the let is bound to (the call passes 2, the let is 1)
    macro = ["macro", "m", P1, P2, ["sequential_block", stmt, ["gate", "n1", Z], ["gate", "g1", "qs"]]]
    other = ["macro", "m2", "u", "w", ["parallel_block", stmt]]
    call = ["gate", "m", Rg, 2]
    call2 = ["gate", "m2", 0, 0]
    head = ["circuit", ["let", L, 1], ["register", Rg, 3], ["map", A, Rg, 1, 3, 1], ["map", "qs", Rg, L]]
    if where == 0:
        sx = head + [macro, stmt, call]
    elif where == 1:
        sx = head + [macro, call, stmt]
    elif where == 2:
        sx = head + [macro, other, call2, call, stmt]
    else:
        sx = head + [other, macro, stmt, ["loop", 2, ["sequential_block", stmt, call]]]
    # the names are concrete once selected; strip CrossHair's proxy wrappers so that the builder's memo table is a
    # native dict (CrossHair's dict model compares keys by == only, and NamedQubit.__eq__ is a name-based heuristic
    # that relies on differing hashes to keep a parameter's q[0] and a register's q[0] apart)
    sx = concrete(sx)
    ref, why = try_ref(sx)
    try:
        c = build(sx)
    except JaqalError:
        return "~rejected"
    except Exception as ex:
        return f"non-JaqalError escaped: {exc(ex)} :: {sx}"
    if ref is None:
        # accepted so far although some reference cannot be honoured: expansion must reject it cleanly
        try:
            expand_macros(c)
        except JaqalError:
            return "~rejected at expansion"
        except Exception as ex:
            return f"non-JaqalError escaped from expand_macros: {exc(ex)} :: {sx}"
        return f"program with an invalid reference ({why}) survives macro expansion :: {sx}"
    m, why = try_impl(c)
    if m is None:
        return f"built circuit has no meaning ({why}) :: {sx}"
    if not R.same(m, ref):
        return f"meaning {R.canon(m)} != lexical-scoping reference {R.canon(ref)} :: {sx}"
    try:
        e = expand_macros(c)
    except JaqalError as ex:
        return f"expand_macros rejects: {ex} :: {sx}"
    except Exception as ex:
        return f"non-JaqalError escaped from expand_macros: {exc(ex)} :: {sx}"
    m2, why = try_impl(e)
    if m2 is None or not R.same(m2, ref):
        return f"meaning after expansion {m2} != reference {R.canon(ref)} :: {sx}"
    # passes that rebuild the circuit from core objects must not merge statements of different scopes
    from jaqalpaq.core.algorithm import fill_in_let
    try:
        f = fill_in_let(c)
        m3, why = try_impl(f)
        e2 = expand_macros(f)
        m4, why4 = try_impl(e2)
    except JaqalError as ex:
        return f"fill_in_let/expand_macros reject a valid program: {ex} :: {sx}"
    except Exception as ex:
        return f"non-JaqalError escaped from fill_in_let: {exc(ex)} :: {sx}"
    if m3 is None or not R.same(m3, ref):
        return f"meaning after fill_in_let {m3} ({why}) != reference {R.canon(ref)} :: {sx}"
    if m4 is None or not R.same(m4, ref):
        return f"meaning after fill_in_let + expand_macros {m4} != reference {R.canon(ref)} :: {sx}"
    # non-interference: the main-body statement means the same when the macros are not there
    alone = head + [stmt]
    ra, _ = try_ref(alone)
    try:
        ca = build(alone)
        ma, _ = try_impl(ca)
    except JaqalError:
        ma = None
    if ra is not None and (ma is None or not R.same(ma, ra)):
        return f"statement alone means {ma}, expected {ra} :: {alone}"
    return ""


# ---------------------------------------------------------------------------------------
# C19

def _g(n):
    return ["gate", f"u{n}"]


def timing_program(shape, l0, l1, l2, l3):
    cnt = [0]

    def G():
        cnt[0] += 1
        return _g(cnt[0])

    def seq(n):
        return ["sequential_block"] + [G() for _ in range(n)]

    if shape == 0:
        body = [["parallel_block", seq(l0), seq(l1), G()], seq(l2), ["parallel_block"], G()]
    elif shape == 1:
        body = [["sequential_block"] + [G() for _ in range(l0)] + [["parallel_block", ["sequential_block"] + [G() for _ in range(l1)] + [["parallel_block", G(), seq(l2)]], seq(l3)], G()]]
    elif shape == 2:
        body = [["parallel_block", ["sequential_block", ["parallel_block", G(), G()]] + [G() for _ in range(l0)],
                 ["sequential_block"] + [G() for _ in range(l1)] + [["parallel_block", seq(l2), G()]]], ["parallel_block", seq(l3)]]
    elif shape == 3:
        body = [["subcircuit_block", 3] + [G() for _ in range(l0)] + [["parallel_block", seq(l1), seq(l2)]]] + [G() for _ in range(l3)] \
            + [["subcircuit_block", 5] + [G() for _ in range(l1)], G(), ["loop", 2, ["sequential_block", ["subcircuit_block", ""] + [G() for _ in range(l2)]]]]
    elif shape == 4:
        body = [["loop", 2, ["sequential_block", ["parallel_block", G(), seq(l0)]]], ["parallel_block", seq(l1), G()], ["loop", l2, seq(l3)]]
    elif shape == 6:
        # empty parallel / sequential blocks at the start and in the middle of the branches of a parallel block
        body = [["parallel_block", ["sequential_block", ["parallel_block"]] + [G() for _ in range(l0)] + [["parallel_block"]] + [G() for _ in range(l1)], seq(l2)],
                ["parallel_block", ["sequential_block", ["sequential_block"]] + [G() for _ in range(l3)] + [["parallel_block", ["sequential_block"]], G()], G()]]
    elif shape == 7:
        # a loop inside a parallel block, visited after a nested parallel block has been left (same branch if l3 is
        # even, a later branch otherwise): must be rejected
        inner = ["sequential_block", ["parallel_block", G(), G()]] + [G() for _ in range(l0)]
        lp = ["loop", 2, seq(l1)]
        if l3 % 2 == 0:
            body = [["parallel_block", inner + [lp], seq(l2)]]
        else:
            body = [["parallel_block", inner, ["sequential_block"] + [G() for _ in range(l2)] + [lp]]]
    else:
        # a loop nested inside a parallel block: must be rejected
        body = [["parallel_block", ["sequential_block", G()] + [G() for _ in range(l0)] + [["loop", 2, seq(l1)]], G()]]
    return ["circuit", ["usepulses", "vf_pulses.none", "*"], ["let", "c", 1], ["register", "r", 2], ["map", "a", "r"],
            ["macro", "mm", "p", ["sequential_block", ["gate", "v", "p"]]]] + body


def _sched(node, t0, out, path):
    """Unit-time schedule: appends (step, identity) for every gate / opaque unit; returns the duration."""
    if isinstance(node, GateStatement):
        out.append((t0, "gate " + node.name))
        return 1
    if isinstance(node, LoopStatement):
        inner = []
        _sched(node.statements, 0, inner, path)
        out.append((t0, "loop %s %s" % (node.iterations, sorted(inner))))
        return 1
    if isinstance(node, BlockStatement):
        if node.subcircuit:
            inner = []
            t = 0
            for s in node.statements:
                t += _sched(s, t, inner, path)
            out.append((t0, "subcircuit %s %s" % (node.iterations, sorted(inner))))
            return 1
        if node.parallel:
            d = 0
            for s in node.statements:
                d = max(d, _sched(s, t0, out, path))
            return d
        t = t0
        for s in node.statements:
            t += _sched(s, t, out, path)
        return t - t0
    raise ValueError(type(node))


def _flat_violation(body):
    """The normalised body must be a flat sequence of gates, parallel groups of gates, loops and
    subcircuit blocks (themselves flat)."""
    for s in body.statements:
        if isinstance(s, (GateStatement, LoopStatement)):
            continue
        if isinstance(s, BlockStatement):
            if s.subcircuit:
                v = _flat_violation(s)
                if v:
                    return "inside subcircuit: " + v
                continue
            if not s.parallel:
                return "a sequential block is left in the body"
            for g in s.statements:
                if not isinstance(g, GateStatement):
                    return f"a parallel group contains a {type(g).__name__}"
            continue
        return f"unexpected {type(s).__name__}"
    return ""


def c19_timing(shape: int, l0: int, l1: int, l2: int, l3: int) -> str:
    sx = timing_program(shape, l0, l1, l2, l3)
    c = build(sx)
    try:
        out = normalize_blocks_with_unitary_timing(c)
    except JaqalError as ex:
        if shape in (5, 7):
            return ""
        return f"valid program rejected: {ex} :: {sx}"
    except Exception as ex:
        return f"non-JaqalError escaped: {exc(ex)} :: {sx}"
    if shape in (5, 7):
        return f"loop inside a parallel block accepted :: {sx}"
    v = _flat_violation(out.body)
    if v:
        return f"result is not flat: {v} :: {sx}"
    a, b = [], []
    _sched(c.body, 0, a, ())
    _sched(out.body, 0, b, ())
    if sorted(a) != sorted(b):
        return f"schedule changed: {sorted(a)} -> {sorted(b)} :: {sx}"
    h = header_equal(c, out, macros=True)
    if h:
        return f"unit timing: {h} :: {sx}"
    return ""
