"""Process-state isolation between CrossHair paths.

CrossHair decides an obligation by calling the harness once per path *in one process*.  State that the code
under test keeps outside its arguments (a module-level cache, a mutable class attribute, a flag) would survive
from one path to the next, carrying symbolic values of a dead path into the next one (CrossHair then reports
`NotDeterministic` or an internal error).  Every path models "this input handed to a freshly started
interpreter", so before each path the import-time contents of that state are put back:

* every module-level and class-level dict / list / set / bytearray / deque of the jaqalpaq modules is emptied and
  refilled *in place* with its import-time contents (a shallow copy taken when the wrapper module is imported);
* every module-level and class-level name that held such a container or a plain scalar (int, float, str, bool,
  None, tuple, frozenset) at import time and has been rebound since is bound to the import-time object again;
* `functools.lru_cache` / `functools.cache` wrappers are cleared.

What is decided per path is therefore independent of the order in which CrossHair explores paths.  State that
leaks between *calls within one path* is untouched: the history harnesses (C11, C13 warm-up, C16) exercise it.
"""
import collections
import importlib
import pkgutil
import sys
import types

_CONTAINERS = (dict, list, set, bytearray, collections.deque)
_SCALARS = (int, float, str, bool, type(None), tuple, frozenset, bytes)

_SNAP = None


def _modules():
    return [m for n, m in sorted(sys.modules.items()) if (n == "jaqalpaq" or n.startswith("jaqalpaq.")) and isinstance(m, types.ModuleType)]


_SKIP = ("pygsti", "ipc", "qscout", "_import", "_cli")


def _import_all():
    """Import every jaqalpaq module (except the optional pyGSTi / IPC / CLI ones) so that its import-time state is known."""
    try:
        import jaqalpaq
    except Exception:
        return

    def walk(paths, prefix):
        for info in pkgutil.iter_modules(paths, prefix):
            if any(part in info.name.split(".") for part in _SKIP):
                continue
            try:
                mod = importlib.import_module(info.name)
            except BaseException:
                continue
            if info.ispkg:
                walk(getattr(mod, "__path__", []), info.name + ".")

    walk(jaqalpaq.__path__, "jaqalpaq.")


def _holders():
    """(namespace dict owner, setter, mapping) for every module and every class defined in a jaqalpaq module."""
    seen = set()
    for m in _modules():
        yield ("module", m, vars(m))
        for v in list(vars(m).values()):
            if isinstance(v, type) and getattr(v, "__module__", "").startswith("jaqalpaq") and id(v) not in seen:
                seen.add(id(v))
                yield ("class", v, dict(vars(v)))


def snapshot():
    global _SNAP
    _import_all()
    snap = []
    caches = []
    names = []
    for kind, owner, ns in _holders():
        names.append((owner, frozenset(ns)))
        for name, val in list(ns.items()):
            if name.startswith("__") and name.endswith("__"):
                continue
            if type(val) in _CONTAINERS or isinstance(val, (collections.OrderedDict, collections.defaultdict)):
                snap.append((owner, name, val, _copy(val)))
            elif type(val) in _SCALARS:
                snap.append((owner, name, val, None))
            elif hasattr(val, "cache_clear") and callable(getattr(val, "cache_clear", None)):
                caches.append(val)
    _SNAP = (snap, caches, names)


def _copy(val):
    if isinstance(val, dict):
        return list(val.items())
    return list(val)


def _refill(obj, saved):
    if isinstance(obj, dict):
        if len(obj) == len(saved) and all(k in obj and obj[k] is v for k, v in saved):
            return
        obj.clear()
        for k, v in saved:
            obj[k] = v
    elif isinstance(obj, (list, bytearray)):
        if len(obj) == len(saved) and all(a is b for a, b in zip(obj, saved)):
            return
        obj[:] = saved
    elif isinstance(obj, set):
        obj.clear()
        obj.update(saved)
    elif isinstance(obj, collections.deque):
        obj.clear()
        obj.extend(saved)


def restore():
    """Put the import-time process state of the jaqalpaq modules back (see the module docstring)."""
    if _SNAP is None:
        return
    try:
        from crosshair.tracers import NoTracing
    except Exception:  # pragma: no cover
        NoTracing = None
    if NoTracing is not None:
        with NoTracing():
            _restore()
    else:
        _restore()


def _restore():
    snap, caches, names = _SNAP
    # names added to a class or module since import (lazily created caches and flags) are removed again
    for owner, had in names:
        for name, val in list(vars(owner).items()):
            if name in had or (name.startswith("__") and name.endswith("__")):
                continue
            if isinstance(val, (types.ModuleType, type, types.FunctionType, types.BuiltinFunctionType)):
                continue
            try:
                delattr(owner, name)
            except Exception:
                pass
    for owner, name, orig, saved in snap:
        ns = vars(owner)
        cur = ns.get(name, _SNAP)
        if cur is not orig:
            try:
                setattr(owner, name, orig)
            except Exception:
                pass
        if saved is not None:
            try:
                _refill(orig, saved)
            except Exception:
                pass
    for c in caches:
        try:
            c.cache_clear()
        except Exception:
            pass
    # lazily created *instance* state dies with its instance
