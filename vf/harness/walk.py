"""C12 (well-bracketed programs), C08 (termination, one readout per visit, in order), C09 (spelling
equivalence), C13 (used qubits / parallel collisions), C03 (emulated state) harnesses."""
import math

from jaqalpaq.error import JaqalError
from jaqalpaq.core.circuitbuilder import build
from jaqalpaq.core.algorithm import expand_macros, fill_in_let, expand_subcircuits
from jaqalpaq.core.algorithm.visitor import Visitor
from jaqalpaq.core.algorithm.walkers import DiscoverSubcircuits, TraceSerializer, TraceVisitor
from jaqalpaq.core.algorithm.used_qubit_visitor import get_used_qubit_indices
from jaqalpaq.core.result import parse_jaqal_output_list
from jaqalpaq.run import run_jaqal_circuit
import jaqalpaq.emulator.backend as _backend

from vf.spec import ref as R
from .common import exc, program, try_ref, try_impl, concretely, concrete
from .gates import NATIVE, wrap_for_emulator, ref_state, UNITARY
from .algebra import expand_sub_tree


# ---------------------------------------------------------------------------------------
# emulation: run_jaqal_circuit's pipeline (expand_subcircuits -> fill_in_let -> expand_macros) is executed
# under tracing; the numeric back end (subcircuit discovery, trace serialisation, the sparse multiply whose
# index arithmetic E4 proves, sampling) runs natively on the realised circuit -- tracing numpy adds nothing.

def _backend_run(expanded):
    from jaqalpaq.emulator.unitary import UnitarySerializedEmulator
    return UnitarySerializedEmulator()(expanded).execute()


class _NativeJob:
    def __init__(self, circ):
        self.circ = circ

    def execute(self):
        return concretely(_backend_run, self.circ)


class NativeBackend:
    """A backend object for run_jaqal_circuit(circuit, backend=...) that delegates to the real
    UnitarySerializedEmulator with CrossHair's tracer suspended."""

    def __call__(self, circ):
        return _NativeJob(circ)


def emulate(c):
    return run_jaqal_circuit(c, backend=NativeBackend())


# ---------------------------------------------------------------------------------------
# fuel: turns non-termination of a visitor into a reportable result

class FuelExhausted(Exception):
    pass


FUEL = [10 ** 9]
_orig_visit = Visitor.visit


def _fueled_visit(self, obj, *a, **k):
    FUEL[0] -= 1
    if FUEL[0] < 0:
        raise FuelExhausted()
    return _orig_visit(self, obj, *a, **k)


Visitor.visit = _fueled_visit


def refuel(n=20000):
    FUEL[0] = n


# ---------------------------------------------------------------------------------------
# C12: arbitrary placement of prepare/measure/gates in a loop skeleton

P = ["gate", "prepare_all"]
M = ["gate", "measure_all"]
G = ["gate", "g1", ("array_item", "r", 0)]

SLOT = {
    0: [],
    1: [P],
    2: [M],
    3: [G],
    4: [["subcircuit_block", "", G]],
    5: [["sequential_block", P, G]],          # a block that opens a section and leaves it open
    6: [["parallel_block", ["sequential_block", G, M]]],   # single-branch parallel block closing a section
    7: [["gate", "mpm"]],                      # macro expanding to prepare; gate; measure
    8: [["gate", "mg"]],                       # macro expanding to a gate
}
NSLOT = len(SLOT)


def bracket_program(k0, k1, k2, k3, k4, n1, n2):
    """  k0 ; loop n1 { k1 ; loop n2 { k2 } ; k3 } ; k4  """
    inner = ["loop", n2, ["sequential_block"] + SLOT[k2]]
    outer = ["loop", n1, ["sequential_block"] + SLOT[k1] + [inner] + SLOT[k3]]
    return ["circuit", ["register", "r", 2],
            ["macro", "mpm", ["sequential_block", P, G, M]],
            ["macro", "mg", ["sequential_block", G]]] + SLOT[k0] + [outer] + SLOT[k4]


class Reject(Exception):
    pass


def automaton(tree):
    """Reference acceptance from the statement.  Reads the expanded program in flat order.
    Returns the number of subcircuits, or raises Reject."""
    st = {"open": False, "count": 0}

    def walk(t, reps=1):
        k = t[0]
        if k == "g":
            if t[1] == "prepare_all":
                st["open"] = True
            elif t[1] == "measure_all":
                if not st["open"]:
                    raise Reject("measure_all not preceded by prepare_all")
                st["open"] = False
                st["count"] += 1
            else:
                if not st["open"]:
                    raise Reject("gate outside prepare_all .. measure_all")
            return
        if k == "loop":
            was_open = st["open"]
            c0 = st["count"]
            for c in t[2]:
                walk(c)
            if was_open and t[1] > 1 and st["count"] != c0:
                raise Reject("repeated loop closes a subcircuit opened before it")
            return
        for c in (t[2] if k == "sub" else t[1]):
            walk(c)

    walk(tree)
    return st["count"]


def c12_bracket(k0: int, k1: int, k2: int, k3: int, k4: int, n1: int, n2: int) -> str:
    sx = bracket_program(k0, k1, k2, k3, k4, n1, n2)
    ref, why = try_ref(sx)
    if ref is None:
        return f"harness error: reference rejects the skeleton ({why})"
    flat = expand_sub_tree(ref)
    try:
        want = automaton(flat)
        wrej = None
    except Reject as ex:
        want, wrej = None, str(ex)
    refuel()
    try:
        c = build(sx, inject_pulses=NATIVE)
        expanded = expand_macros(fill_in_let(expand_subcircuits(c)))
        traces = DiscoverSubcircuits().visit(expanded)
    except JaqalError as ex:
        if wrej is None:
            return f"well-bracketed program rejected ({ex}) :: {sx}"
        return ""
    except FuelExhausted:
        return f"does not terminate :: {sx}"
    except Exception as ex:
        return f"non-JaqalError escaped: {exc(ex)} :: {sx}"
    if wrej is not None:
        return f"ill-bracketed program accepted ({wrej}; {len(traces)} subcircuits) :: {sx}"
    if len(traces) != want:
        return f"{len(traces)} subcircuits, expected {want} :: {sx}"
    # what each subcircuit contains: the gates between its (last) prepare_all and its measure_all, loops
    # inside the section unrolled.  Compared only when no section straddles a loop boundary.
    secs = concretely(_simple_sections, flat)
    if secs is not None:
        try:
            ser = [[g.name for g in TraceSerializer(t).visit(expanded) if g.name not in ("prepare_all", "measure_all")] for t in traces]
        except FuelExhausted:
            return f"serialising a trace does not terminate :: {sx}"
        except Exception as ex:
            return f"non-JaqalError escaped from TraceSerializer: {exc(ex)} :: {sx}"
        want_ser = [[g[1] for g in s_] for s_ in secs]
        if ser != want_ser:
            return f"subcircuit contents {ser}, expected {want_ser} :: {sx}"
    return ""


def _backend_history(progs):
    """[(accepted?, number of subcircuits or error text)] of running the programs in turn on ONE backend object
    (natively; the backend object never crosses the tracing boundary, which would copy it)."""
    from jaqalpaq.emulator.unitary import UnitarySerializedEmulator
    be = UnitarySerializedEmulator()
    out = []
    for sx in progs:
        c = build(sx, inject_pulses=NATIVE)
        try:
            res = run_jaqal_circuit(c, backend=be)
            out.append((True, len(res.subcircuits)))
        except JaqalError as ex:
            out.append((False, str(ex)))
    return out


def c12_backend(a0: int, a1: int, b0: int, b1: int) -> str:
    """Two programs executed one after the other on ONE backend object (run_jaqal_circuit(c, backend=be)): the verdict
    on each is the reference automaton's, i.e. what a fresh backend object gives; nothing of the first run (an open
    section, a rejection half-way) leaks into the second.  The programs are realised and executed with the tracer
    suspended: the solver selects the histories (enumeration-equivalent)."""
    head = ["circuit", ["register", "r", 2]]
    progs = [head + SLOT[a0] + SLOT[a1], head + SLOT[b0] + SLOT[b1]]
    wants = []
    for sx in progs:
        ref, why = try_ref(sx)
        if ref is None:
            return f"harness error: reference rejects the skeleton ({why})"
        try:
            wants.append(automaton(expand_sub_tree(ref)))
        except Reject as ex:
            wants.append(None)
    try:
        got = concretely(_backend_history, progs)
    except Exception as ex:
        return f"non-JaqalError escaped from a run on the shared backend object: {exc(ex)} :: {progs}"
    for n, ((ok, info), want) in enumerate(zip(got, wants)):
        if ok and want is None:
            return f"run {n + 1} on the shared backend object accepted an ill-bracketed program ({info} subcircuits) :: {progs}"
        if not ok and want is not None:
            return f"run {n + 1} on the shared backend object rejected a well-bracketed program ({info}) :: {progs}"
        if ok and info != want:
            return f"run {n + 1} on the shared backend object found {info} subcircuits, expected {want} :: {progs}"
    return ""


def _has_pm(t):
    if t[0] == "g":
        return t[1] in ("prepare_all", "measure_all")
    return any(_has_pm(c) for c in (t[2] if t[0] in ("loop", "sub") else t[1]))


def _simple_sections(tree):
    """_sections(tree), or None when some loop is entered while a section is open and contains a
    prepare_all/measure_all (a section straddling a loop boundary)."""
    out = []
    cur = [None]
    simple = [True]

    def walk(t):
        k = t[0]
        if k == "g":
            if t[1] == "prepare_all":
                cur[0] = []
            elif t[1] == "measure_all":
                out.append(cur[0])
                cur[0] = None
            elif cur[0] is not None:
                cur[0].append(t)
            return
        if k == "loop":
            if cur[0] is not None:
                if _has_pm(t):
                    simple[0] = False
                    return
                reps = t[1]
            else:
                reps = 1
                # a loop that opens a section and leaves it open straddles as well
                if _opens_unclosed(t):
                    simple[0] = False
            for _ in range(max(0, reps)):
                for c in t[2]:
                    walk(c)
            return
        for c in (t[2] if k == "sub" else t[1]):
            walk(c)

    walk(tree)
    return out if simple[0] else None


def _opens_unclosed(t):
    state = [False]

    def walk(n):
        if n[0] == "g":
            if n[1] == "prepare_all":
                state[0] = True
            elif n[1] == "measure_all":
                state[0] = False
            return
        for c in (n[2] if n[0] in ("loop", "sub") else n[1]):
            walk(c)

    walk(t)
    return state[0]


# ---------------------------------------------------------------------------------------
# C08 / C09: well-nested programs, visit order, readouts

def section(explicit, tag):
    """One prepare/measure section acting on r[tag % 2], spelled explicitly or as a subcircuit block."""
    g = ["gate", "h1", ("array_item", "r", tag % 2), tag * 0.25]
    if explicit:
        return [P, g, M]
    return [["subcircuit_block", "", g]]


def visit_program(shape, spell, n1, n2, n3, lets):
    """Programs whose sections are entirely inside one block.  `spell` bit k: section k explicit (1) or
    subcircuit block (0).  lets: loop counts given by let constants (overridable)."""
    e = [bool((spell >> k) & 1) for k in range(6)]
    c1, c2, c3 = ("n1", "n2", "n3") if lets else (n1, n2, n3)
    head = ["circuit", ["let", "n1", n1], ["let", "n2", n2], ["let", "n3", n3], ["register", "r", 2]]
    if shape == 0:
        # S0; loop n1 { S1; loop n2 { S2 }; S3 }; loop n3 { S4 }
        body = section(e[0], 0) + [["loop", c1, ["sequential_block"] + section(e[1], 1) + [["loop", c2, ["sequential_block"] + section(e[2], 2)]] + section(e[3], 3)]] \
            + [["loop", c3, ["sequential_block"] + section(e[4], 4)]]
        visits = [0] + n1 * ([1] + n2 * [2] + [3]) + n3 * [4]
        nsub = 5
    elif shape == 1:
        # loop n1 { loop n2 { loop n3 { S0 } } ; S1 } ; S2
        body = [["loop", c1, ["sequential_block", ["loop", c2, ["sequential_block", ["loop", c3, ["sequential_block"] + section(e[0], 0)]]]] + section(e[1], 1)]] + section(e[2], 2)
        visits = n1 * (n2 * n3 * [0] + [1]) + [2]
        nsub = 3
    elif shape == 2:
        # macro with a section, called in loops; a sequential block holding sections
        head = head + [["macro", "ms", "q", "t", ["sequential_block", ["subcircuit_block", "", ["gate", "h1", "q", "t"]]]]]
        body = [["loop", c1, ["sequential_block", ["gate", "ms", ("array_item", "r", 0), 0.5]]],
                ["sequential_block"] + section(e[0], 1) + [["loop", c2, ["sequential_block"] + section(e[1], 2) + section(e[2], 3)]]] \
            + [["loop", c3, ["sequential_block", ["gate", "ms", ("array_item", "r", 1), 0.75]]]]
        visits = n1 * [0] + [1] + n2 * [2, 3] + n3 * [4]
        nsub = 5
    elif shape == 4:
        # loop n1 { loop n2 { S0 } } ; loop n3 { S1 } ; loop n2 { loop n1 { S2 } } ; S3
        # (a loop that may run zero times nested as the only statement of another loop, followed by sections at the
        # same position and depth in later statements)
        body = [["loop", c1, ["sequential_block", ["loop", c2, ["sequential_block"] + section(e[0], 0)]]],
                ["loop", c3, ["sequential_block"] + section(e[1], 1)],
                ["loop", c2, ["sequential_block", ["loop", c1, ["sequential_block"] + section(e[2], 2)]]]] + section(e[3], 3)
        visits = n1 * n2 * [0] + n3 * [1] + n2 * n1 * [2] + [3]
        nsub = 4
    else:
        # S0 ; loop n1 { } ; loop n2 { S1 ; S2 } ; loop n3 { loop n1 { S3 } }
        body = section(e[0], 0) + [["loop", c1, ["sequential_block"]]] + [["loop", c2, ["sequential_block"] + section(e[1], 1) + section(e[2], 2)]] \
            + [["loop", c3, ["sequential_block", ["loop", c1, ["sequential_block"] + section(e[3], 3)]]]]
        visits = [0] + n2 * [1, 2] + n3 * n1 * [3]
        nsub = 4
    return head + body, visits, nsub


def c08_outputs(shape: int, spell: int, lets: bool, ov: bool, n1: int, n2: int, n3: int, o0: int, o1: int, o2: int) -> str:
    """parse_jaqal_output_list on a well-nested program: one readout per visit, in execution order,
    attributed to the visited subcircuit (flat numbering); per-subcircuit readouts and relative
    frequencies count exactly its own readouts.  ov: the let counts are overridden... (not available to
    parse_jaqal_output_list, so ov only changes the declared values)."""
    if ov and lets:
        # declared counts are n1,n2,n3 rotated; the override dictionary restores n1,n2,n3
        sx, _, nsub = visit_program(shape, spell, n2, n3, n1, lets)
        _, visits, _ = visit_program(shape, spell, n1, n2, n3, lets)
    else:
        sx, visits, nsub = visit_program(shape, spell, n1, n2, n3, lets)
    outs = [o0, o1, o2]
    data = [outs[k % 3] for k in range(len(visits))]
    # some outputs as strings
    given = [format(v, "02b")[::-1] if (k % 2 == 1) else v for k, v in enumerate(data)]
    refuel()
    try:
        c = build(sx, inject_pulses=NATIVE)
        if ov and lets:
            c = fill_in_let(c, override_dict={"n1": n1, "n2": n2, "n3": n3})
        res = parse_jaqal_output_list(c, given)
    except JaqalError as ex:
        return f"valid program rejected: {ex} :: {sx}"
    except FuelExhausted:
        return f"parse_jaqal_output_list does not terminate :: {sx}"
    except Exception as ex:
        return f"non-JaqalError escaped: {exc(ex)} :: {sx}"
    if len(res.subcircuits) != nsub:
        return f"{len(res.subcircuits)} subcircuits, expected {nsub} :: {sx}"
    for k, sc in enumerate(res.subcircuits):
        if sc.index != k:
            return f"subcircuit {k} has index {sc.index}"
    got = [r.subcircuit.index for r in res.readouts]
    if got != visits:
        return f"visit order {got}, expected {visits} :: {sx}"
    for k, r in enumerate(res.readouts):
        if r.index != k:
            return f"readout {k} has index {r.index}"
        if r.as_int != data[k]:
            return f"readout {k} is {r.as_int}, output was {given[k]!r}"
        if r.as_str != format(data[k], "02b")[::-1]:
            return f"readout {k} as_str {r.as_str!r} for {data[k]}"
    for k, sc in enumerate(res.subcircuits):
        mine = [r for r in res.readouts if r.subcircuit is sc]
        if list(sc.readouts) != mine:
            return f"subcircuit {k}: readouts are not exactly its own"
        for v in range(4):
            cnt = sum(1 for r in mine if r.as_int == v)
            if sc.relative_frequency_by_int[v] != cnt:
                return f"subcircuit {k}: relative frequency of {v} is {sc.relative_frequency_by_int[v]}, {cnt} readouts"
    return ""


def _stub_choice(picks):
    """numpy.random.choice replaced by a stub returning the next pick constrained by its contract
    (0 <= k < n and p[k] > 0)."""
    calls = []

    def choice(n, p=None):
        k = picks[len(calls) % len(picks)] % n
        # contract: only outcomes of non-zero probability
        tries = 0
        while p is not None and not (p[k] > 0) and tries < n:
            k = (k + 1) % n
            tries += 1
        calls.append((n, None if p is None else [float(x) for x in p], k))
        return k

    return choice, calls


def c08_emulate(shape: int, spell: int, lets: bool, n1: int, n2: int, n3: int, p0: int, p1: int) -> str:
    """run_jaqal_circuit on a well-nested program with numpy.random.choice stubbed: terminates, one readout
    per visit in order, each sampled outcome has non-zero probability in its subcircuit's distribution."""
    sx, visits, nsub = visit_program(shape, spell, n1, n2, n3, lets)
    choice, calls = _stub_choice([p0, p1])
    old = _backend.choice
    _backend.choice = choice
    refuel()
    try:
        c = build(sx, inject_pulses=NATIVE)
        res = run_jaqal_circuit(c)
    except JaqalError as ex:
        return f"valid program rejected: {ex} :: {sx}"
    except FuelExhausted:
        return f"emulation does not terminate :: {sx}"
    except Exception as ex:
        return f"non-JaqalError escaped: {exc(ex)} :: {sx}"
    finally:
        _backend.choice = old
    if len(res.subcircuits) != nsub:
        return f"{len(res.subcircuits)} subcircuits, expected {nsub} :: {sx}"
    got = [r.subcircuit.index for r in res.readouts]
    if got != visits:
        return f"visit order {got}, expected {visits} :: {sx}"
    if len(calls) != len(visits):
        return f"{len(calls)} samples drawn for {len(visits)} visits"
    for k, (r, (n, p, pick)) in enumerate(zip(res.readouts, calls)):
        sc = res.subcircuits[visits[k]]
        if n != 4:
            return f"sampled from {n} outcomes, expected 4"
        probs = [float(x) for x in sc.simulated_probability_by_int]
        if p != probs:
            return f"visit {k} sampled from a distribution that is not its subcircuit's"
        if r.as_int != pick or not (probs[r.as_int] > 0):
            return f"visit {k}: outcome {r.as_int} has probability {probs[r.as_int]}"
    for k, sc in enumerate(res.subcircuits):
        mine = [r for r in res.readouts if r.subcircuit is sc]
        if list(sc.readouts) != mine:
            return f"subcircuit {k}: readouts are not exactly its own"
        for v in range(4):
            if sc.relative_frequency_by_int[v] != sum(1 for r in mine if r.as_int == v):
                return f"subcircuit {k}: relative frequencies do not count its own readouts"
    return ""


def c09_spelling(shape: int, spell: int, lets: bool, n1: int, n2: int, n3: int) -> str:
    """The same program with every section spelled `subcircuit { B }` and with the sections selected by
    `spell` spelled `prepare_all; B; measure_all` is executed and reported identically."""
    sa, visits, nsub = visit_program(shape, 0, n1, n2, n3, lets)
    sb, _, _ = visit_program(shape, spell, n1, n2, n3, lets)
    outs = [(k * 7 + 1) % 4 for k in range(len(visits))]
    results = []
    for sx in (sa, sb):
        choice, calls = _stub_choice([1, 2, 3])
        old = _backend.choice
        _backend.choice = choice
        refuel()
        try:
            c = build(sx, inject_pulses=NATIVE)
            res = run_jaqal_circuit(c)
            par = parse_jaqal_output_list(c, outs)
            ex1 = expand_macros(fill_in_let(expand_subcircuits(c)))
            traces = DiscoverSubcircuits().visit(ex1)
            ser = [[(g.name, tuple(str(v) for v in g.parameters.values())) for g in TraceSerializer(t).visit(ex1)] for t in traces]
        except JaqalError as ex:
            return f"valid program rejected: {ex} :: {sx}"
        except FuelExhausted:
            return f"does not terminate :: {sx}"
        except Exception as ex:
            return f"non-JaqalError escaped: {exc(ex)} :: {sx}"
        finally:
            _backend.choice = old
        results.append((
            len(res.subcircuits),
            [r.subcircuit.index for r in res.readouts],
            [r.as_int for r in res.readouts],
            [[round(float(x), 12) for x in sc.simulated_probability_by_int] for sc in res.subcircuits],
            [r.subcircuit.index for r in par.readouts],
            [r.as_int for r in par.readouts],
            ser,
        ))
    a, b = results
    names = ["subcircuit count", "emulated visit order", "emulated outcomes", "probabilities", "parsed visit order", "parsed outcomes", "serialised gates"]
    for nm, x, y in zip(names, a, b):
        if x != y:
            return f"{nm} differ between the two spellings: {x} vs {y} :: {sb}"
    if a[1] != visits:
        return f"visit order {a[1]}, expected {visits}"
    return ""


# ---------------------------------------------------------------------------------------
# C13: used qubits and parallel collisions

def par_program(shape, size, i, j, k, l, perm):
    """Programs with parallel blocks over the native gate set.  perm reverses the written order of the
    branches of every parallel block."""
    R0 = lambda x: ("array_item", "r", x)
    A = lambda x: ("array_item", "a", x)

    def par(*branches):
        b = list(branches)
        if perm:
            b.reverse()
        return ["parallel_block"] + b

    head = ["circuit", ["let", "li", i], ["register", "r", size], ["map", "a", "r", 1, None, None], ["map", "qa", "a", 0],
            ["macro", "mp", "p", "q", par(["gate", "g1", "p"], ["gate", "h1", "q", 0.5])],
            ["macro", "ms", "p", "q", ["sequential_block", ["gate", "g1", "p"], ["gate", "g1", "q"]]]]
    if shape == 0:
        body = [par(["gate", "g1", R0(i)], ["gate", "g1", R0(j)]), ["gate", "g2", R0(k), R0(l)]]
    elif shape == 1:
        body = [par(["sequential_block", ["gate", "g1", R0(i)], ["gate", "g1", R0(k)]], ["gate", "g2", R0(j), R0(l)])]
    elif shape == 2:
        body = [par(["gate", "g1", A(i)], ["gate", "g1", R0(j)], ["gate", "I_g1", R0(k)]), ["gate", "g1", "qa"], par(["gate", "g1", "qa"], ["gate", "g1", R0(l)])]
    elif shape == 3:
        body = [["gate", "mp", R0(i), R0(j)], par(["gate", "ms", R0(k), R0(l)], ["gate", "n1", 0.5], ["gate", "g1", R0("li")])]
    elif shape == 4:
        body = [par(["sequential_block", ["loop", 2, ["sequential_block", ["gate", "g1", R0(i)]]], ["gate", "n0"]], ["gate", "g1", R0(j)]),
                ["loop", 2, par(["gate", "g1", R0(k)], ["gate", "g1", A(l)])]]
    elif shape == 5:
        body = [par(["gate", "g1", R0(i)], par(["gate", "g1", R0(j)], ["gate", "g1", R0(k)])), par(["sequential_block", par(["gate", "g1", R0(l)])], ["gate", "g1", R0(i)])]
    elif shape == 9:
        # whole-register aliases (of the register, of another whole-register alias, of a sliced alias): the same
        # physical qubit reached under different names in two branches
        W = lambda name, x: ("array_item", name, x)
        head = head + [["map", "w", "r"], ["map", "v", "w"], ["map", "u", "a"]]
        body = [par(["gate", "g1", W("w", i)], ["gate", "g1", R0(j)]), par(["gate", "g1", W("v", k)], ["gate", "g1", W("u", 0)]), ["gate", "g1", W("w", l)]]
    elif shape == 8:
        # macros that index the register by a parameter / index a register parameter, each called several times with
        # different arguments (one qubit object of the body serves all calls)
        head = head + [["macro", "fi", "n", ["sequential_block", ["gate", "g1", R0("n")]]],
                       ["macro", "la", "x", ["sequential_block", ["gate", "g1", ("array_item", "x", 1)]]]]
        body = [par(["gate", "fi", i], ["gate", "fi", j]), ["gate", "la", "a"], par(["gate", "la", "r"], ["gate", "fi", k]), ["gate", "fi", l]]
    elif shape == 7:
        # prepare/measure-style gates use all qubits, also when they are a branch of a parallel block
        body = [par(["gate", "prepare_all"], ["gate", "g1", R0(i)]), ["gate", "g1", R0(j)], par(["gate", "g1", R0(k)], ["gate", "measure_all"])] if l % 2 == 0 else \
               [["gate", "prepare_all"], ["gate", "g1", R0(j)], par(["gate", "g1", R0(k)], ["gate", "I_g1", R0(i)], ["gate", "measure_all"])]
        return head + body
    else:
        # nested macros whose parameter names coincide across levels
        head = head + [["macro", "on", "p", ["sequential_block", ["gate", "g1", "p"]]],
                       ["macro", "second", "p", "q", ["sequential_block", ["gate", "on", "q"]]],
                       ["macro", "third", "q", "p", par(["gate", "second", "q", "p"], ["gate", "n0"])]]
        body = [par(["gate", "second", R0(i), R0(j)], ["gate", "g1", R0(k)]), ["gate", "third", R0(l), R0(i)]]
    return head + [P] + body + [M]


def _par_collision(t, allq):
    """Some parallel block has two branches whose used-qubit sets intersect."""
    k = t[0]
    if k == "g":
        return False
    kids = t[2] if k in ("loop", "sub") else t[1]
    if k == "par":
        sets = [R.used(c, allq) for c in kids]
        for x in range(len(sets)):
            for y in range(x + 1, len(sets)):
                if sets[x] & sets[y]:
                    return True
    return any(_par_collision(c, allq) for c in kids)


def _raw_tree(sx):
    """Reference tree without normalisation (parallel nesting must be kept to judge collisions)."""
    env, body = R.ref_env(sx)
    return ("seq", [R._ref_stmt(env, {}, s) for s in body])


def _warm_up():
    """History for the analyses: another circuit, over a register with another name and size, is analysed and
    emulated first (in the same process)."""
    w = ["circuit", ["register", "zz", 5], P, ["gate", "g1", ("array_item", "zz", 4)], M]
    wc = build(w, inject_pulses=NATIVE)
    get_used_qubit_indices(wc)
    emulate(wc)


def c13_parallel(shape: int, size: int, i: int, j: int, k: int, l: int, warm: int = 0) -> str:
    sx = par_program(shape, size, i, j, k, l, False)
    if warm:
        concretely(_warm_up)
    try:
        tree = concretely(_raw_tree, sx)
    except R.Invalid:
        tree = None
    allq = [("r", n) for n in range(size)]
    if (shape == 0 and k == l) or (shape == 1 and j == l):
        return "~repeated qubit argument (rejected by the emulator; outside this claim)"
    results = []
    for perm in (False, True):
        s2 = par_program(shape, size, i, j, k, l, perm)
        try:
            c = build(s2, inject_pulses=NATIVE)
            res = emulate(c)
            results.append([[round(float(x), 12) for x in sc.simulated_probability_by_int] for sc in res.subcircuits])
        except JaqalError as ex:
            results.append(None)
        except Exception as ex:
            return f"non-JaqalError escaped: {exc(ex)} :: {s2}"
    if tree is None:
        if results[0] is not None or results[1] is not None:
            return f"program with an invalid reference accepted :: {sx}"
        return "~rejected"
    coll = concretely(_par_collision, tree, allq)
    for perm, r in zip((False, True), results):
        if coll and r is not None:
            return f"overlapping parallel branches accepted (perm={perm}) :: {sx}"
        if not coll and r is None:
            return f"disjoint parallel branches rejected (perm={perm}) :: {sx}"
    if not coll and results[0] != results[1]:
        return f"result depends on the written order of parallel branches :: {sx}"
    if coll:
        return ""
    # used-qubit analysis of the circuit and of every top-level statement
    c = build(sx, inject_pulses=NATIVE)
    cx = expand_macros(fill_in_let(c))
    want_all = R.used(R.norm(tree), allq)
    got = get_used_qubit_indices(cx)
    got_all = {(n, q) for n, s in got.items() for q in s}
    if got_all != want_all:
        return f"used qubits of the circuit {sorted(got_all)} != {sorted(want_all)} :: {sx}"
    from jaqalpaq.core.algorithm.used_qubit_visitor import UsedQubitIndicesVisitor
    for n, (st, rt) in enumerate(zip(c.body.statements, tree[1])):
        v = UsedQubitIndicesVisitor()
        v.all_qubits = {"r": set(range(size))}
        try:
            g = v.visit(st, context=None)
        except RecursionError:
            return f"used-qubit analysis of statement {n} does not terminate (RecursionError) :: {sx}"
        except JaqalError as ex:
            return f"used-qubit analysis of statement {n} raises {ex} :: {sx}"
        gs = {(nm, q) for nm, s in g.items() for q in s}
        ws = R.used(rt, allq)
        if gs != ws:
            return f"used qubits of statement {n}: {sorted(gs)} != {sorted(ws)} :: {sx}"
    return ""


# ---------------------------------------------------------------------------------------
# C03: emulated state == ordered product of the gate unitaries

def state_program(shape, size, i, j, k, n, x):
    R0 = lambda q: ("array_item", "r", q)
    A = lambda q: ("array_item", "a", q)
    from vf.spec.templates import FLOATS
    t = FLOATS[x]
    head = ["circuit", ["let", "t", t], ["let", "n", n], ["register", "r", size], ["map", "a", "r", 1, None, None], ["map", "qa", "a", 0],
            ["macro", "mp", "p", "q", "u", ["parallel_block", ["gate", "g1", "p"], ["gate", "h1", "q", "u"]]],
            ["macro", "mm", "p", "q", ["sequential_block", ["gate", "g2", "p", "q"], ["gate", "mp", "q", "p", 0.25]]]]
    if shape == 0:
        body = [P, ["gate", "g1", R0(i)], ["gate", "h1", A(j), "t"], ["gate", "g2", R0(i), R0(k)],
                ["loop", "n", ["sequential_block", ["gate", "g2", R0(k), R0(i)], ["gate", "I_g1", R0(i)]]], ["gate", "n0"], ["gate", "n1", "t"], M]
    elif shape == 1:
        body = [["subcircuit_block", "", ["gate", "g3", R0(i), R0(j), R0(k)], ["gate", "g1", "qa"], ["gate", "g3", R0(k), R0(i), R0(j)]],
                ["subcircuit_block", 3, ["gate", "mm", R0(i), R0(j)], ["loop", n, ["sequential_block", ["gate", "mm", R0(j), R0(k)]]]]]
    elif shape == 2:
        body = [["loop", n, ["sequential_block", ["subcircuit_block", "", ["gate", "mp", R0(i), R0(j), "t"],
                                                  ["parallel_block", ["gate", "h1", R0(k), 1.0], ["gate", "g2", R0(i), R0(j)]]]]],
                P, ["gate", "g2", A(i), R0(0)], P, ["gate", "g2", "qa", R0(k)], ["gate", "h1", "qa", "n"], M]
    else:
        body = [P, ["parallel_block", ["sequential_block", ["gate", "g1", R0(i)], ["gate", "g2", R0(i), R0(j)]], ["gate", "h1", R0(k), "t"]],
                ["loop", n, ["parallel_block", ["gate", "g1", A(i)]]], M, ["subcircuit_block", "", ["gate", "g2", R0(j), R0(i)], ["gate", "g2", R0(i), R0(j)]]]
    return head + body


def _sections(tree):
    """Gate lists of the prepare/measure sections in flat order; loops inside an open section are unrolled;
    gates before a repeated prepare_all are discarded."""
    out = []
    cur = [None]

    def walk(t):
        k = t[0]
        if k == "g":
            if t[1] == "prepare_all":
                cur[0] = []
            elif t[1] == "measure_all":
                out.append(cur[0])
                cur[0] = None
            elif cur[0] is not None:
                cur[0].append(t)
            return
        if k == "loop":
            reps = t[1] if cur[0] is not None else 1
            for _ in range(max(0, reps)):
                for c in t[2]:
                    walk(c)
            return
        for c in (t[2] if k == "sub" else t[1]):
            walk(c)

    walk(tree)
    return out


def c03_state(shape: int, size: int, i: int, j: int, k: int, n: int, x: int, ov: int) -> str:
    """The state vector reported for each subcircuit equals U_k ... U_1 |0..0> over the resolved arguments.
    ov >= 0: the constants t and n are overridden (t -> FLOATS[ov], n -> ov % 3) through fill_in_let."""
    from vf.spec.templates import FLOATS
    sx = state_program(shape, size, i, j, k, n, x)
    over = {"t": FLOATS[ov], "n": ov % 3} if ov >= 0 else {}
    ref, why = try_ref(sx, over)
    try:
        c = build(sx, inject_pulses=NATIVE)
        if over:
            c = fill_in_let(c, override_dict=over)
        res = emulate(c)
    except JaqalError as ex:
        if ref is None:
            return "~rejected"
        if concretely(_has_repeated_qubit, ref):
            return "~rejected (repeated qubit argument)"
        rt = concretely(_raw_tree_ov, sx, over)
        if concretely(_par_collision, rt, [("r", q) for q in range(size)]):
            return "~rejected (overlapping parallel branches)"
        return f"valid program rejected: {ex} :: {sx} {over}"
    except Exception as ex:
        return f"non-JaqalError escaped: {exc(ex)} :: {sx} {over}"
    if ref is None:
        return f"program with an invalid reference executed ({why}) :: {sx} {over}"
    secs = concretely(_sections, expand_sub_tree(ref))
    if len(res.subcircuits) != len(secs):
        return f"{len(res.subcircuits)} subcircuits, expected {len(secs)} :: {sx}"
    for num, (sc, gates) in enumerate(zip(res.subcircuits, secs)):
        # repeated (non-distinct) qubit arguments are outside the claim
        for g in gates:
            qs = [a[2] for a in g[2] if a[0] == "q"]
            if len(set(qs)) != len(qs):
                return "~repeated qubit argument"
        want = concretely(ref_state, gates, size)
        got = [complex(v) for v in sc.state_vector]
        if len(got) != len(want):
            return f"state vector of length {len(got)}, expected {len(want)}"
        for a, b in zip(got, want):
            if abs(a - b) > 1e-9:
                return f"subcircuit {num}: state {[complex(round(v.real, 6), round(v.imag, 6)) for v in got]} != {[complex(round(v.real, 6), round(v.imag, 6)) for v in want]} :: {sx} {over}"
        probs = [float(p) for p in sc.simulated_probability_by_int]
        for p, b in zip(probs, want):
            if abs(p - abs(b) ** 2) > 1e-9:
                return f"subcircuit {num}: probabilities do not match the state :: {sx}"
    return ""


def _has_repeated_qubit(t):
    if t[0] == "g":
        qs = [a[2] for a in t[2] if a[0] == "q"]
        return len(set(qs)) != len(qs)
    return any(_has_repeated_qubit(c) for c in (t[2] if t[0] in ("loop", "sub") else t[1]))


def _raw_tree_ov(sx, over):
    env, body = R.ref_env(sx, over)
    return ("seq", [R._ref_stmt(env, {}, s) for s in body])


def state_template(tname: str, mask: int, o0: int, **leaves) -> str:
    """Any template program, bracketed for execution over the native gate set: the emulated state of every
    subcircuit equals the reference product over the reference meaning (aliases resolved, lets/overrides
    applied, macros expanded, loops unrolled); the used-qubit analysis of the unexpanded circuit agrees."""
    from .passes import _overrides
    sx = wrap_for_emulator(program(tname, leaves))
    ov = _overrides(sx, mask, o0, o0)
    ref, why = try_ref(sx, ov)
    size = None
    try:
        c = build(sx, inject_pulses=NATIVE)
        c1 = fill_in_let(c, override_dict=ov) if ov else c
        res = emulate(c1)
    except JaqalError as ex:
        if ref is None:
            return "~rejected"
        if concretely(_has_repeated_qubit, ref):
            return "~rejected (repeated qubit argument)"
        if ov and try_ref(sx, {})[0] is None:
            return "~rejected (invalid with the declared values)"
        n = concretely(_register_size, sx, ov)
        if concretely(_par_collision, concretely(_raw_tree_ov, sx, ov), [("r", q) for q in range(n)]):
            return "~rejected (overlapping parallel branches)"
        return f"valid program rejected: {ex} :: {sx} {ov}"
    except Exception as ex:
        return f"non-JaqalError escaped: {exc(ex)} :: {sx} {ov}"
    if ref is None:
        return f"program with an invalid reference executed ({why}) :: {sx} {ov}"
    n = concretely(_register_size, sx, ov)
    secs = concretely(_simple_sections, expand_sub_tree(ref))
    if secs is None:
        return "~sections straddle a loop"
    if len(res.subcircuits) != len(secs):
        return f"{len(res.subcircuits)} subcircuits, expected {len(secs)} :: {sx} {ov}"
    for num, (sc, gates) in enumerate(zip(res.subcircuits, secs)):
        want = concretely(ref_state, gates, n)
        got = [complex(v) for v in sc.state_vector]
        if len(got) != len(want):
            return f"state vector of length {len(got)}, expected {len(want)} :: {sx} {ov}"
        for a, b in zip(got, want):
            if abs(a - b) > 1e-9:
                return f"subcircuit {num}: emulated state differs from the reference product :: {sx} {ov}"
    # used-qubit analysis on the circuit as written: macros not expanded, and without the bracketing
    # prepare_all/measure_all (busy gates would make every answer "all qubits")
    plain = program(tname, leaves)
    ref_plain, _ = try_ref(plain, ov)
    if ref_plain is None:
        return ""
    ref = ref_plain
    try:
        cp = build(plain, inject_pulses=NATIVE)
        cp1 = fill_in_let(cp, override_dict=ov) if ov else cp
        uq = get_used_qubit_indices(cp1)
    except JaqalError as ex:
        return f"used-qubit analysis rejects a valid program: {ex} :: {sx}"
    except RecursionError:
        return f"used-qubit analysis does not terminate (RecursionError) :: {sx}"
    except Exception as ex:
        return f"non-JaqalError escaped from get_used_qubit_indices: {exc(ex)} :: {sx}"
    regname = next(st[1] for st in sx[1:] if st[0] == "register")
    want_u = R.used(ref, [(regname, q) for q in range(n)])
    got_u = {(nm, q) for nm, s_ in uq.items() for q in s_}
    if got_u != want_u:
        return f"used qubits of the unexpanded circuit {sorted(got_u)} != {sorted(want_u)} :: {sx} {ov}"
    return ""


def _register_size(sx, ov):
    env, _ = R.ref_env(sx, ov)
    return list(env.fundamental.values())[0]
