"""Replay of an index-kernel counterexample against the real emulator: a register of n qubits, a
generic product state prepared with distinct 1-qubit gates, then one k-qubit gate with a generic
matrix on the given qubits; the reported state must equal the tensor-product reference."""
import cmath
import numpy

from jaqalpaq.core.circuitbuilder import build
from jaqalpaq.core.gatedef import GateDefinition, BusyGateDefinition
from jaqalpaq.core.parameter import Parameter, ParamType
from jaqalpaq.run import run_jaqal_circuit

from .gates import apply_gate


def _mat(dim, seed):
    rng = numpy.random.RandomState(seed)
    return rng.randn(dim, dim) + 1j * rng.randn(dim, dim)


def replay_kernel(k: int, n: int, qubits) -> str:
    qubits = list(qubits)
    n = max(n, max(qubits) + 1, 1)
    Q = ParamType.QUBIT
    big = _mat(2 ** k, 7)
    smalls = [_mat(2, 100 + q) for q in range(n)]
    gates = {
        "prepare_all": BusyGateDefinition("prepare_all"),
        "measure_all": BusyGateDefinition("measure_all"),
        "big": GateDefinition("big", [Parameter(f"q{t}", Q) for t in range(k)], ideal_unitary=lambda: big),
    }
    for q in range(n):
        gates[f"s{q}"] = GateDefinition(f"s{q}", [Parameter("q", Q)], ideal_unitary=(lambda m: (lambda: m))(smalls[q]))
    sx = ["circuit", ["register", "r", n], ["gate", "prepare_all"]]
    sx += [["gate", f"s{q}", ("array_item", "r", q)] for q in range(n)]
    sx += [["gate", "big"] + [("array_item", "r", q) for q in qubits], ["gate", "measure_all"]]
    from jaqalpaq.emulator.unitary import UnitarySerializedEmulator
    from jaqalpaq.core.algorithm.walkers import DiscoverSubcircuits
    import jaqalpaq.emulator.unitary as U
    # the result object normalises probabilities and refuses non-unitary test matrices: observe the state directly
    captured = {}
    orig = U.EmulatorSubcircuit

    class Recorder:
        def __init__(self, trace, index, probabilities, state_vector):
            captured["state"] = [complex(v) for v in state_vector]

    U.EmulatorSubcircuit = Recorder
    try:
        c = build(sx, inject_pulses=gates)
        UnitarySerializedEmulator()(c)
    finally:
        U.EmulatorSubcircuit = orig
    state = [0j] * (2 ** n)
    state[0] = 1 + 0j
    for q in range(n):
        state = apply_gate(state, n, smalls[q].tolist(), [q])
    state = apply_gate(state, n, big.tolist(), qubits)
    got = captured["state"]
    for a, b in zip(got, state):
        if abs(a - b) > 1e-9 * (1 + abs(b)):
            return f"emulator state differs from the tensor-product reference for a {k}-qubit gate on qubits {qubits} of {n}"
    return ""
