"""C16 (only JaqalErrors with a position; no sticky state) and C02 (character-level differential against a
reference tokenizer + reference grammar; layout insensitivity)."""
from jaqalpaq.error import JaqalError
from jaqalpaq.parser import parse_jaqal_string
from jaqalpaq.parser.parser import parse_to_sexpression
from jaqalpaq.parser.slyparse import JaqalParseError, JaqalLexer
from jaqalpaq.core.circuit import Circuit

from vf.spec import reflex
from vf.spec.cfg import Recogniser
from vf.spec.jaqal_grammar import build_reference
from vf.spec.render import to_text
from vf.spec.templates import T
from .common import exc, concretely, concrete, program

_REC = [None]


def recogniser():
    if _REC[0] is None:
        _REC[0] = Recogniser(build_reference(), "start")
    return _REC[0]


def _position_ok(text, err):
    """line/column of a JaqalParseError lie inside the text (or EOF).  Kept to operations that stay symbolic
    on a symbolic text; that the position is exactly a token start is checked by c02_diff."""
    if err.line == "EOF":
        return ""
    if not isinstance(err.line, int) or not isinstance(err.column, int):
        return f"position ({err.line!r}, {err.column!r}) is not numeric"
    if not (1 <= err.line <= text.count("\n") + 1):
        return f"line {err.line} outside the text"
    if not (1 <= err.column <= len(text) + 1):
        return f"column {err.column} outside the text"
    return ""


def _outcome(text, entry=0):
    """('ok', repr) | ('jaqal', message) ; other exception types propagate"""
    try:
        if entry == 0:
            c = parse_jaqal_string(text, autoload_pulses=False)
            return ("ok", repr(c))
        sx = parse_to_sexpression(text)
        return ("ok", repr(sx))
    except JaqalError as ex:
        return ("jaqal", str(ex))


def _outcome_kind(text):
    """Outcome of processing a symbolic text, described without printing anything that contains its characters
    (printing would realise them one by one): kind, error class and position, shape of the circuit."""
    try:
        c = parse_jaqal_string(text, autoload_pulses=False)
        return ("ok", len(c.body.statements), len(c.registers), len(c.constants), len(c.macros))
    except JaqalParseError as ex:
        return ("parse error", ex.line, ex.column)
    except JaqalError as ex:
        return ("jaqal error",)


def _empty_dir():
    """A directory without any importable module (committed; nothing is written at run time)."""
    import os
    return os.path.join(os.path.dirname(os.path.dirname(os.path.abspath(__file__))), "empty_import_dir")


def c16_total(s: str, pre: str, post: str, entry: int) -> str:
    text = pre + s + post
    try:
        if entry == 0:
            r = parse_jaqal_string(text, autoload_pulses=False)
            if not isinstance(r, Circuit):
                return f"returned {type(r).__name__} for {text!r}"
        elif entry == 1:
            parse_to_sexpression(text)
        elif entry == 3:
            # pulse autoloading on (the default), modules looked up relative to an empty directory
            import importlib.util
            r = parse_jaqal_string(text, import_path=_empty_dir())
        else:
            from jaqalpaq.run import run_jaqal_string
            run_jaqal_string(text)
    except JaqalParseError as ex:
        bad = _position_ok(text, ex)
        if bad:
            return f"{bad} for {text!r}"
        return "~rejected"
    except JaqalError:
        return "~rejected"
    except ImportError:
        return "~rejected (import)"
    except Exception as ex:
        return f"{exc(ex)} escaped for {text!r}"
    return ""


MODCHARS = ["", ".", "a", "_", "1", "b", " "]


def c16_usepulses(c0: int, c1: int, c2: int) -> str:
    """'from <name> usepulses *' with pulse autoloading on (the default) and an import directory without
    modules; the name is three solver-chosen picks from MODCHARS (one representative per character class
    the lexer distinguishes in a module name, plus the empty string)."""
    name = MODCHARS[c0] + MODCHARS[c1] + MODCHARS[c2]
    return concretely(c16_total, name, "from ", " usepulses *\n", 3)


SEMANTIC = [
    "register r[2]\nlet r 1\n",                         # duplicate name
    "register r[2]\nregister q[2]\ng r[0]\n",           # two registers
    "let a 1\ng a[0]\n",                                # index a non-register
    "register r[2]\nmap q r[0]\ng q[0]\n",              # index a single-qubit alias
    "register r[2]\ng r[x]\n",                          # undefined index
    "register r[2]\nmap a b\n",                         # undefined map source
    "g r[0]\n",                                         # no register
    "register r[2]\nmacro m a { g a }\nm r[0] r[1]\n",  # macro arity
    "register r[2]\nmacro m a { g a }\nmacro m b { h b }\n",   # macro redefined
    "register r[2]\ng r[0]\nlet a 1\n",                 # header after body
    "register r[0]\n",                                  # empty register
    "import a as b\n",
    "register r[2]\n<g r[0] | subcircuit { g r[1] }>\n",
    "register r[2]\nloop x { g r[0] }\n",
    "from .nonexistent_vf usepulses *\nregister r[2]\ng r[0]\n",
    "register r[2]\nmap a r[0:3]\n",
    "let n 2.5\nregister r[n]\ng r[0]\n",
    "register r[2]\ng r[0] r\nprepare_all\n",
]


def c16_semantic(which: int, v: int, entry: int) -> str:
    """Programs with one semantic error (the integer literal of the program replaced by v)."""
    text = SEMANTIC[which].replace("[2]", "[%d]" % v, 1) if "[2]" in SEMANTIC[which] else SEMANTIC[which]
    text = concrete(text)
    try:
        if entry == 0:
            parse_jaqal_string(text, autoload_pulses=False)
        elif entry == 1:
            from jaqalpaq.run import run_jaqal_string
            run_jaqal_string(text)
        else:
            c = parse_jaqal_string(text, autoload_pulses=False, expand_macro=True, expand_let=True, expand_let_map=True)
    except JaqalParseError as ex:
        bad = _position_ok(text, ex)
        return f"{bad} for {text!r}" if bad else ""
    except JaqalError:
        return ""
    except ImportError:
        return ""
    except Exception as ex:
        return f"{exc(ex)} escaped for {text!r} (entry {entry})"
    return "~accepted"


TRICKY = [
    "let big 1.0e999\nregister r[1]\ng r[0] big\n", "let small -1.0e-999\n", "let n 99999999999999999999999999999999\nregister r[1]\n",
    "register r[99999999999999999999]\n", "register r[1]\ng r[0] 1.0e999\n", "register r[1]\ng r[99999999999999999999999]\n",
    "register r[2]\nmap a r[0:99999999999999999999:99999999999999999]\n", "loop 99999999999999999999999 { }\n",
    "register r[1]\n" + "{ " * 30 + "}" * 30, "register r[1]\n" + "loop 1 " * 1 + "{ <" + " g r[0] |" * 40 + " > }\n", "let x +.5\n", "let x -0.0\nregister r[1]\ng r[0] x\n",
    "register r[1]\nmacro m a b c d e f { g a }\nm r[0] 1 2 3 4 5\n", "g" + " 1" * 200 + "\n", "register r[1]\ng r[0] 00012\n", "let x 1e5\n", "'0101':{}\n",
    "register r[3]\nmap a r[2:0:-1]\ng a[0]\n", "register r[1]\nsubcircuit 0 { g r[0] }\n", "register r[1]\nsubcircuit -1 { g r[0] }\n", "register r[1]\nloop -1 { g r[0] }\n",
]


def c16_tricky(which: int, entry: int) -> str:
    """Unusual but finite concrete texts (huge and non-finite literals, deep nesting, long lines, negative
    counts): only a result, JaqalError or ImportError."""
    text = TRICKY[which]
    try:
        if entry == 0:
            parse_jaqal_string(text, autoload_pulses=False)
        elif entry == 1:
            from jaqalpaq.generator import generate_jaqal_program
            c = parse_jaqal_string(text, autoload_pulses=False)
            parse_jaqal_string(generate_jaqal_program(c), autoload_pulses=False)
        else:
            parse_jaqal_string(text, autoload_pulses=False, expand_macro=True, expand_let=True, expand_let_map=True)
    except JaqalParseError as ex:
        bad = _position_ok(text, ex)
        return f"{bad} for {text[:60]!r}" if bad else "~rejected"
    except JaqalError:
        return "~rejected"
    except ImportError:
        return "~rejected"
    except RecursionError as ex:
        return f"RecursionError escaped for {text[:60]!r}"
    except Exception as ex:
        return f"{exc(ex)} escaped for {text[:60]!r} (entry {entry})"
    return ""


POOL = ["register r[2]\ng r[0]\n", "<", "register r[2]\nmacro m a { g a }\nm r[1]\n", "g $", "let a 1\nlet a 2\n", "{ g ; < h | k > }\n", "/* x", "loop 2 { g }",
        "register r[1]\nsubcircuit 2 { g r[0] }\n", "from a.b usepulses *\nlet x 1.5\n"]


def c16_history(s: str, sel: int, order: int) -> str:
    """The outcome of processing POOL[sel] is the same before and after processing an arbitrary short
    text s (which may fail); order 1: the roles are swapped (s is judged before/after POOL[sel])."""
    fixed = POOL[sel]
    a, b = (fixed, s) if order == 0 else (s, fixed)

    def run(text, entry=0):
        # the pool text is concrete: processing it is executed natively; the symbolic text is traced
        return concretely(_outcome, text, entry) if text is fixed else _outcome_kind(text)

    try:
        before = run(a)
        try:
            run(b)
        except Exception:
            pass
        after = run(a)
    except Exception as ex:
        return f"{exc(ex)} escaped for {a!r}"
    if before != after:
        return f"outcome of {a!r} changed after processing {b!r}: {before} -> {after}"
    return ""


# ---------------------------------------------------------------------------------------
# C02

def c02_diff(s: str, pre: str, post: str) -> str:
    """The parser accepts pre+s+post  <=>  the reference tokenizer succeeds and the reference grammar derives
    the token string.  (Rejections by semantic actions -- header after body, register size, import -- count
    as grammatical.)"""
    text = pre + s + post
    try:
        toks = reflex.tokens(text)
        want = recogniser().accepts([t for t, _, _ in toks])
        starts = [i for _, i, _ in toks]
    except reflex.LexProblem:
        want = False
        starts = None
    except reflex.Unspecified:
        return "~tokenisation not specified"
    try:
        parse_to_sexpression(text)
        got = True
    except JaqalParseError as ex:
        msg = str(ex)
        got = ("Header statement" in msg) or ("Import statement not yet implemented" in msg) or ("Invalid register size" in msg)
        bad = _position_ok(text, ex)
        if bad:
            return f"{bad} for {text!r}"
        if not got and starts is not None and ex.line != "EOF":
            # the reported position must be the start of a token of the text
            lines = text.split("\n")
            idx = sum(len(l) + 1 for l in lines[:ex.line - 1]) + ex.column - 1
            if idx not in starts:
                return f"error position {ex.line}:{ex.column} of {text!r} is not the start of a token"
    except JaqalError:
        got = False
    except Exception as ex:
        return f"{exc(ex)} escaped for {text!r}"
    if got != want:
        return f"{text!r} is {'accepted' if got else 'rejected'} by the parser but is {'derivable' if want else 'not derivable'} from the grammar"
    return ""


TOKPOOL = ["g", ";", "\n", "|", "<", ">", "{", "}"]
TOKCTX = [("register r[1]\n< g ", " g >\n"), ("register r[1]\n{ g ", " g }\n"), ("register r[1]\ng ", " g\n"), ("register r[1]\n<", "g | g >"),
          ("register r[1]\nloop 2 {", "}\n"), ("register r[1]\n< g | { g ", " } >")]


def c02_tokdiff(ctx: int, t0: int, t1: int, t2: int) -> str:
    """Three tokens chosen by the solver from {gate, ';', newline, '|', '<', '>', '{', '}'} in a hole of a program
    context, through the real entry point: accepted <=> derivable from the reference grammar (and error positions as in
    c02_diff).  The text is concrete once the tokens are chosen; it is parsed natively (enumeration-equivalent)."""
    a, b = TOKCTX[ctx]
    mid = " ".join(TOKPOOL[t] for t in (t0, t1, t2))
    return concretely(c02_diff, concrete(mid), a, b)


SEPS = [";", "\n", ";\n", "\n\n", " ;  ", "\n//c\n", " /*c*/\n", "/*a*/;/*b*/", ";;", "\n \t\n"]
PSEPS = ["|", "\n", " | ", "|\n", "\n|", "/*x*/|", "|//y\n", "||"]
PADS = ["", " ", "\n", "\t", " /*p*/ ", "\n//q\n", ";" ]


def c02_layout(tname: str, s1: int, s2: int, p1: int, p2: int, **leaves) -> str:
    """Rendering the same program with other separators, padding and comments gives the same statement tree."""
    sx = program(tname, leaves)
    base = concrete(to_text(sx))
    pad_open = PADS[p1]
    pad_close = PADS[p2]
    if ";" in pad_open or ";" in pad_close:
        ppad = ""     # ';' padding is only legal in sequential blocks; keep parallel blocks clean
    alt = concrete(to_text(sx, sep=SEPS[s1], psep=PSEPS[s2], open_pad=pad_open if ";" not in pad_open else " ", close_pad=pad_close if ";" not in pad_close else " ", tail=SEPS[s1]))
    try:
        a = concretely(parse_to_sexpression, base)
    except JaqalError:
        return "~rejected"
    try:
        b = concretely(parse_to_sexpression, alt)
    except JaqalError as ex:
        return f"layout variant rejected ({ex}): {alt!r}"
    except Exception as ex:
        return f"{exc(ex)} escaped for {alt!r}"
    if a != b:
        return f"layout changes the statement tree: {base!r} vs {alt!r}"
    return ""


ERRBASE = "let n 2\nregister r[2]\nmacro m a { g a }\nloop n { g r[0] ; < h r[1] | g r[0] > }\nm r[1]\n"
ERRSTRIDE = 4       # every 4th token boundary (and the end of the text) is a candidate position
COMMENTS = ["/* a\n b\n c */", "/*\n*/", "// x\n", "/* one line */", "/* a */ /* b\n*/"]
BADTOK = ["", "]", "$", "|", "let"]


def _errpos_outcome(text):
    try:
        return ("ok", repr(parse_to_sexpression(text)))
    except JaqalParseError as ex:
        return ("parse error", ex.line, ex.column, str(ex))
    except JaqalError as ex:
        return ("jaqal error", str(ex))


def c02_errpos(cm: int, bad: int, p1: int, p2: int) -> str:
    """A comment (possibly spanning lines) is inserted in front of the p1-th token of a program and an
    offending token in front of the p2-th token (p2 >= p1; none for bad == 0).  The result must be the one
    obtained without the comment: the same statement tree, or the same error at the same token (its line and
    column shifted by exactly the inserted comment); and an error must not be reported before the inserted
    offending token."""
    return concretely(_c02_errpos, concrete(cm), concrete(bad), concrete(p1), concrete(p2))


def _offset(text, line, col):
    lines = text.split("\n")
    return sum(len(l) + 1 for l in lines[:line - 1]) + col - 1


def _c02_errpos(cm, bad, p1, p2):
    starts = [i for t, i, _ in reflex.tokens(ERRBASE)] + [len(ERRBASE)]
    starts = starts[::ERRSTRIDE] + ([starts[-1]] if (len(starts) - 1) % ERRSTRIDE else [])
    if not (0 <= p1 <= p2 < len(starts)):
        return "~positions outside the token list"
    a, b = starts[p1], starts[p2]
    filler = COMMENTS[cm] + ("" if COMMENTS[cm].endswith("\n") else " ")
    if COMMENTS[cm].endswith("\n") and (a == 0 or ERRBASE[a - 1] != "\n") and p1 > 0:
        # a line comment ends the line: only insert it where a line ends anyway
        return "~line comment inside a line"
    tail = ERRBASE[a:b] + ((" " + BADTOK[bad] + " ") if bad else "") + ERRBASE[b:]
    plain = ERRBASE[:a] + tail
    commented = ERRBASE[:a] + filler + tail
    o0, o1 = _errpos_outcome(plain), _errpos_outcome(commented)
    if o0[0] != o1[0]:
        return f"without the comment: {o0[:3]}; with it: {o1[:3]} :: {commented!r}"
    if o0[0] == "ok":
        return "" if o0 == o1 else f"the comment changes the statement tree :: {commented!r}"
    if o0[0] == "jaqal error":
        return ""
    if (o0[1] == "EOF") != (o1[1] == "EOF"):
        return f"without the comment: {o0[:3]}; with it: {o1[:3]} :: {commented!r}"
    if o0[1] == "EOF":
        return ""
    i0 = _offset(plain, o0[1], o0[2])
    i1 = _offset(commented, o1[1], o1[2])
    want = i0 + (len(filler) if i0 >= a else 0)
    if i1 != want:
        return f"error reported at {o1[1]}:{o1[2]} (offset {i1}); the same text without the comment reports offset {i0}, i.e. offset {want} here :: {commented!r}"
    if bad and i1 < b + len(filler) + 1:
        return f"error reported at offset {i1}, before the offending token at offset {b + len(filler) + 1} :: {commented!r}"
    return ""
