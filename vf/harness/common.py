"""Helpers shared by the harnesses (run under CrossHair and in plain replay)."""
from jaqalpaq.error import JaqalError
from jaqalpaq.core.circuitbuilder import build
from jaqalpaq.core.gate import GateStatement
from jaqalpaq.core.block import BlockStatement, LoopStatement
from jaqalpaq.core.constant import Constant
from jaqalpaq.core.parameter import Parameter
from jaqalpaq.core.register import Register, NamedQubit

from vf.spec import ref as R
from vf.spec.templates import T


def exc(ex):
    return f"{type(ex).__name__}: {ex}"


def program(tname, leaves):
    return T[tname](**leaves)


def _try_ref(sx, overrides=None):
    try:
        return R.ref_meaning(sx, overrides), ""
    except R.Invalid as ex:
        return None, str(ex)


def _try_impl(circ, overrides=None):
    try:
        return R.impl_meaning(circ, overrides), ""
    except R.Invalid as ex:
        return None, str(ex)


def try_ref(sx, overrides=None):
    """Reference meaning of the program.  Harnesses call this before the code under test has run, when the
    leaves are still symbolic: it is executed under tracing (realising all leaves up front multiplies the
    number of paths: measured 6267 instead of 178 for one obligation)."""
    return _try_ref(sx, overrides)


def try_impl(circ, overrides=None):
    """Meaning read off a circuit the code under test has produced (its values are pinned by then): evaluated
    on realised values with the tracer suspended -- the oracle is not code under test."""
    return concretely(_try_impl, circ, overrides)


def statements(node):
    """All statements reachable from a circuit body / block (not through macro calls)."""
    if isinstance(node, GateStatement):
        yield node
    elif isinstance(node, LoopStatement):
        yield node
        yield from statements(node.statements)
    elif isinstance(node, BlockStatement):
        yield node
        for s in node.statements:
            yield from statements(s)


def gate_values(circ, include_macros=True):
    """Every value in an argument / index / count / bound position of the circuit."""
    roots = [circ.body]
    if include_macros:
        roots += [m.body for m in circ.macros.values()]
    for root in roots:
        for s in statements(root):
            if isinstance(s, GateStatement):
                for v in s.parameters.values():
                    yield ("argument", v)
                    if isinstance(v, NamedQubit):
                        yield ("index", v.alias_index)
                        yield ("indexed", v.alias_from)
            elif isinstance(s, LoopStatement):
                yield ("loop count", s.iterations)
            elif isinstance(s, BlockStatement) and s.subcircuit:
                yield ("subcircuit count", s.iterations)
    seen = set()

    def reg_values(r, where):
        if id(r) in seen or isinstance(r, Parameter) or r is None:
            return
        seen.add(id(r))
        if isinstance(r, NamedQubit):
            yield (where + " alias index", r.alias_index)
            yield from reg_values(r.alias_from, where)
        elif isinstance(r, Register):
            if r.alias_from is None:
                yield (where + " register size", r._size)
            else:
                if r.alias_slice is not None:
                    yield (where + " alias start", r.alias_slice.start)
                    yield (where + " alias stop", r.alias_slice.stop)
                    yield (where + " alias step", r.alias_slice.step)
                yield from reg_values(r.alias_from, where)

    for r in circ.registers.values():
        yield from reg_values(r, "declared")
    # registers reachable from gate arguments (they may be other objects than the declared ones)
    roots = [circ.body] + ([m.body for m in circ.macros.values()] if include_macros else [])
    for root in roots:
        for s_ in statements(root):
            if isinstance(s_, GateStatement):
                for v in s_.parameters.values():
                    if isinstance(v, (NamedQubit, Register)):
                        yield from reg_values(v, "referenced")


def header_equal(a, b, macros=True):
    """Header data of two circuits identical (constants, registers, native gates, usepulses[, macros])."""
    if list(a.constants.items()) != list(b.constants.items()):
        return "constants differ"
    if list(a.registers.keys()) != list(b.registers.keys()) or any(a.registers[k] != b.registers[k] for k in a.registers):
        return "registers differ"
    if a.native_gates != b.native_gates:
        return "native gates differ"
    if a.usepulses != b.usepulses:
        return "usepulses differ"
    if macros and (list(a.macros.keys()) != list(b.macros.keys()) or any(a.macros[k] != b.macros[k] for k in a.macros)):
        return "macros differ"
    return ""


# ---------------------------------------------------------------------------------------
# tracing control

def concretely(fn, *args, **kwargs):
    """Call fn on fully realised arguments with CrossHair's tracing suspended.

    Used only for computations whose inputs the code under test has already forced to be
    concrete (e.g. parsing a text that str() produced): with concrete inputs the traced run
    has exactly one path, so suspending the tracer changes nothing but speed.  Outside
    CrossHair this is a plain call."""
    try:
        from crosshair.tracers import is_tracing, NoTracing
        from crosshair.core import deep_realize
    except Exception:  # pragma: no cover
        return fn(*args, **kwargs)
    if not is_tracing():
        return fn(*args, **kwargs)
    args = deep_realize(args)
    kwargs = deep_realize(kwargs)
    from crosshair.util import CrossHairInternal
    try:
        with NoTracing():
            return fn(*args, **kwargs)
    except CrossHairInternal:
        # the code under test keeps state outside its arguments (a module-level cache, a class attribute) that an
        # earlier traced call filled with symbolic values: the call cannot run with the tracer off.  Run it traced.
        pass
    return fn(*args, **kwargs)


def concrete(value):
    """Realise a value (deeply) when running under CrossHair; identity otherwise."""
    try:
        from crosshair.tracers import is_tracing
        from crosshair.core import deep_realize
    except Exception:  # pragma: no cover
        return value
    if not is_tracing():
        return value
    return deep_realize(value)
