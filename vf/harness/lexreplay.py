"""Replays of lexer-level solver models against the real generator / lexer / parser."""
from jaqalpaq.error import JaqalError
from jaqalpaq.core.circuitbuilder import build
from jaqalpaq.generator import generate_jaqal_program
from jaqalpaq.parser import parse_jaqal_string
from jaqalpaq.parser.parser import parse_to_sexpression


def _roundtrip(sx, what):
    c = build(sx)
    text = generate_jaqal_program(c)
    try:
        c2 = parse_jaqal_string(text, autoload_pulses=False)
    except Exception as ex:
        return f"{what}: generated text {text!r} is rejected: {type(ex).__name__}: {ex}"
    if c2 != c:
        return f"{what}: generated text {text!r} re-parses to a different circuit"
    if generate_jaqal_program(c2) != text:
        return f"{what}: second generation differs"
    return ""


def replay_float_text(w: str) -> str:
    x = float(w)
    return _roundtrip(["circuit", ["let", "y", x], ["register", "r", 1], ["gate", "h1", ("array_item", "r", 0), x], ["gate", "h1", ("array_item", "r", 0), "y"]], f"float {x!r}")


def replay_int_text(w: str) -> str:
    n = int(w)
    return _roundtrip(["circuit", ["let", "y", n], ["register", "r", 1], ["gate", "h1", ("array_item", "r", 0), n]], f"int {n}")


def replay_identifier(w: str) -> str:
    for sx in (["circuit", ["let", w, 1], ["register", "r", 1], ["gate", "h1", ("array_item", "r", 0), w]],
               ["circuit", ["register", w, 1], ["gate", "g1", ("array_item", w, 0)]],
               ["circuit", ["register", "r", 1], ["gate", w, ("array_item", "r", 0)]],
               ["circuit", ["register", "r", 1], ["macro", "m", w, ["sequential_block", ["gate", "g1", w]]], ["gate", "m", ("array_item", "r", 0)]]):
        try:
            out = _roundtrip(sx, f"identifier {w!r}")
        except JaqalError:
            continue
        if out:
            return out
    return ""


def _gates(text):
    return [st[1] for st in parse_to_sexpression(text)[1:] if st[0] == "gate"]


def replay_comment(w: str, kind: str) -> str:
    try:
        got = _gates("a\n/* x */ b /* y */\nc\n")
        if got != ["a", "b", "c"]:
            return f"statements between two block comments are dropped: {got}"
        got = _gates("a // x\nb\n")
        if got != ["a", "b"]:
            return f"line comment swallows the next line: {got}"
        if kind == "comment_swallow" and "*/" in w[2:-2]:
            k = w.index("*/", 2)
            rest = w[k + 2:]
            if _gates("a\n" + w + "\nc\n") != _gates("a\n/**/" + rest + "\nc\n"):
                return f"block comment {w!r} does not end at its first '*/'"
        if kind == "comment_missing":
            if _gates("a\n" + w + " b\n") != ["a", "b"]:
                return f"{w!r} is not treated as a block comment"
        if kind == "line_comment" and "\n" not in w:
            if _gates("a " + w + "\nb\n") != ["a", "b"]:
                return f"{w!r} is not treated as a line comment"
    except JaqalError as ex:
        return f"comment handling: {ex}"
    return ""


def replay_keyword(w: str, token) -> str:
    from jaqalpaq.parser.slyparse import JaqalLexer
    toks = list(JaqalLexer().tokenize(w + " "))
    if len(toks) != 1:
        return f"{w!r} lexes as {len(toks)} tokens"
    if token is None:
        return f"{w!r} is remapped to {toks[0].type}" if toks[0].type != "IDENTIFIER" else ""
    if toks[0].type != token:
        return f"keyword {w!r} lexes as {toks[0].type}, expected {token}"
    return ""


LEXEME = {"REG": "register", "MAP": "map", "LET": "let", "MACRO": "macro", "LOOP": "loop", "IMPORT": "import", "USEPULSES": "usepulses",
          "FROM": "from", "AS": "as", "NL": "\n", "IDENTIFIER": "a", "DOTIDENTIFIER": ".b", "NUMBER": "1.5", "INT": "2", "BININT": "'01'",
          "BRANCH": "branch", "SUBCIRCUIT": "subcircuit"}


def render_tokens(tokens):
    return " ".join(LEXEME.get(t, t) for t in tokens)


def replay_tokens(tokens, ref_accepts: bool) -> str:
    """A token string on which the parser's productions and the reference grammar disagree: the real
    parser's verdict on a canonical rendering must differ from the reference's for it to be a violation."""
    from jaqalpaq.parser.slyparse import JaqalParseError
    text = render_tokens(tokens)
    try:
        parse_to_sexpression(text)
        accepted = True
    except JaqalParseError as ex:
        msg = str(ex)
        # rejections by semantic actions are acceptance as far as the context-free grammar goes
        accepted = ("Header statement" in msg) or ("Import statement not yet implemented" in msg) or ("Invalid register size" in msg)
    except Exception as ex:
        return f"non-JaqalError on {text!r}: {type(ex).__name__}: {ex}"
    if accepted != ref_accepts:
        return f"{text!r} is {'accepted' if accepted else 'rejected'} by the parser but {'derivable' if ref_accepts else 'not derivable'} from the grammar"
    return ""


def replay_conflicts() -> str:
    from jaqalpaq.parser.slyparse import JaqalParser
    lr = JaqalParser._lrtable
    c = list(getattr(lr, "sr_conflicts", [])) + list(getattr(lr, "rr_conflicts", []))
    return f"parser table has conflicts {c[:3]}" if c else ""


def replay_token_class(w: str, token) -> str:
    """w followed by a space must lex as exactly one token `token` (token None: w must not be a single
    token of a class it does not belong to -- judged by the reference tokenizer)."""
    from jaqalpaq.parser.slyparse import JaqalLexer
    from vf.spec import reflex
    try:
        toks = [(t.type, t.index) for t in JaqalLexer().tokenize(w + " ")]
    except JaqalError as ex:
        toks = "error"
    try:
        ref = [(t, i) for t, i, _ in reflex.tokens(w + " ")]
    except reflex.LexProblem:
        ref = "error"
    except reflex.Unspecified:
        return ""
    if token is not None and isinstance(token, str) and len(token) > 1:
        if toks == "error" or [t for t, _ in toks] != [token]:
            return f"{w!r} is lexed as {toks}, expected one {token} token"
        return ""
    if toks != ref:
        return f"{w!r} is lexed as {toks}, the reference tokenizer gives {ref}"
    return ""


def replay_token_action(w: str, token) -> str:
    """A text of one token's language on which its conversion is predicted to raise: every entry point may only raise JaqalError."""
    for text in (f"let x {w}\nregister r[1]\n", f"register r[1]\ng r[{w}]\n", f"register r[1]\nloop {w} {{ g r[0] }}\n"):
        try:
            parse_jaqal_string(text, autoload_pulses=False)
        except JaqalError:
            continue
        except Exception as ex:
            return f"token {token} of {len(w)} characters: {type(ex).__name__} escaped from parse_jaqal_string: {str(ex)[:120]}"
    return ""
