"""C14 harnesses: no reference that cannot be honoured is accepted.

Core-object family: registers, aliases and qubits are constructed directly from the
public constructors, so every integer stays symbolic (nothing is hashed)."""
from jaqalpaq.core.register import Register, NamedQubit
from jaqalpaq.core.constant import Constant
from jaqalpaq.error import JaqalError


def _exc(ex):
    return f"{type(ex).__name__}: {ex}"


def index_core(size: int, idx: int, how: int) -> str:
    """Index a fundamental register of `size` qubits with `idx` (how=0: r[idx]; how=1:
    NamedQubit constructed directly as the builder's `map a r[idx]` does; how=2: index through a
    whole-register alias).  Accept  <=>  0 <= idx < size; accepted => resolves to (r, idx)."""
    ok = 0 <= idx < size
    try:
        r = Register("r", size)
        if how == 0:
            q = r[idx]
        elif how == 1:
            q = NamedQubit("a", r, idx)
        else:
            a = Register("a", alias_from=r)
            q = a[idx]
        reg, i = q.resolve_qubit()
    except JaqalError:
        return "~rejected" if not ok else f"valid index rejected: size={size} idx={idx}"
    except Exception as ex:
        return f"non-JaqalError escaped: {_exc(ex)}"
    if not ok:
        return f"index {idx} accepted for register of size {size} (resolved to {i})"
    if reg is not r or i != idx:
        return f"resolved to {reg.name}[{i}], expected r[{idx}]"
    return ""


def _ref_slice(size, start, stop, step):
    """Reference: the list of source indices an alias r[start:stop:step] denotes (element i is
    start + i*step, for as long as it is before `stop` in the direction of `step`)."""
    out = []
    k = start
    if step > 0:
        while k < stop:
            out.append(k)
            k += step
    elif step < 0:
        while k > stop:
            out.append(k)
            k += step
    return out


def slice_core(size: int, start: int, stop: int, step: int, idx: int) -> str:
    """map a r[start:stop:step]; a[idx].
    must reject: step == 0, idx outside 0..len-1, or any element of the slice outside 0..size-1;
    must accept: step > 0, 0 <= start, stop <= size, 0 <= idx < len;
    (negative steps that stay inside the source may be accepted or rejected: the statement does not say);
    accepted => resolves to r[start + idx*step]."""
    ref = _ref_slice(size, start, stop, step)
    inside = True
    for e in ref:
        if not (0 <= e < size):
            inside = False
    must_reject = step == 0 or not (0 <= idx < len(ref)) or not inside
    must_accept = step > 0 and start >= 0 and stop <= size and 0 <= idx < len(ref)
    what = f"r[{size}] a=r[{start}:{stop}:{step}] a[{idx}]"
    try:
        r = Register("r", size)
        a = Register("a", alias_from=r, alias_slice=slice(start, stop, step))
        n = a.size
        q = a[idx]
        reg, i = q.resolve_qubit()
    except JaqalError:
        return f"valid reference rejected: {what}" if must_accept else "~rejected"
    except Exception as ex:
        return f"non-JaqalError escaped: {_exc(ex)} for {what}"
    if must_reject:
        return f"accepted {what} -> r[{i}]"
    if n != len(ref):
        return f"alias size {n}, expected {len(ref)} for {what}"
    if reg is not r or i != ref[idx]:
        return f"resolved to {reg.name}[{i}], expected r[{ref[idx]}] for {what}"
    return ""
