"""C14 harnesses: no reference that cannot be honoured is accepted.

Core-object family: registers, aliases and qubits are constructed directly from the
public constructors, so every integer stays symbolic (nothing is hashed)."""
from jaqalpaq.core.register import Register, NamedQubit
from jaqalpaq.core.constant import Constant
from jaqalpaq.error import JaqalError


def _exc(ex):
    return f"{type(ex).__name__}: {ex}"


def index_core(size: int, idx: int, how: int) -> str:
    """Index a fundamental register of `size` qubits with `idx` (how=0: r[idx]; how=1:
    NamedQubit constructed directly as the builder's `map a r[idx]` does; how=2: index through a
    whole-register alias).  Accept  <=>  0 <= idx < size; accepted => resolves to (r, idx)."""
    ok = 0 <= idx < size
    try:
        r = Register("r", size)
        if how == 0:
            q = r[idx]
        elif how == 1:
            q = NamedQubit("a", r, idx)
        else:
            a = Register("a", alias_from=r)
            q = a[idx]
        reg, i = q.resolve_qubit()
    except JaqalError:
        return "~rejected" if not ok else f"valid index rejected: size={size} idx={idx}"
    except Exception as ex:
        return f"non-JaqalError escaped: {_exc(ex)}"
    if not ok:
        return f"index {idx} accepted for register of size {size} (resolved to {i})"
    if reg is not r or i != idx:
        return f"resolved to {reg.name}[{i}], expected r[{idx}]"
    return ""


def _ref_slice(size, start, stop, step):
    """Reference: the list of source indices an alias r[start:stop:step] denotes (element i is
    start + i*step, for as long as it is before `stop` in the direction of `step`)."""
    out = []
    k = start
    if step > 0:
        while k < stop:
            out.append(k)
            k += step
    elif step < 0:
        while k > stop:
            out.append(k)
            k += step
    return out


def slice_core(size: int, start: int, stop: int, step: int, idx: int) -> str:
    """map a r[start:stop:step]; a[idx].
    must reject: step == 0, idx outside 0..len-1, or any element of the slice outside 0..size-1;
    must accept: step > 0, 0 <= start, stop <= size, 0 <= idx < len;
    (negative steps that stay inside the source may be accepted or rejected: the statement does not say);
    accepted => resolves to r[start + idx*step]."""
    ref = _ref_slice(size, start, stop, step)
    inside = True
    for e in ref:
        if not (0 <= e < size):
            inside = False
    must_reject = step == 0 or not (0 <= idx < len(ref)) or not inside
    must_accept = step > 0 and start >= 0 and stop <= size and 0 <= idx < len(ref)
    what = f"r[{size}] a=r[{start}:{stop}:{step}] a[{idx}]"
    try:
        r = Register("r", size)
        a = Register("a", alias_from=r, alias_slice=slice(start, stop, step))
        n = a.size
        q = a[idx]
        reg, i = q.resolve_qubit()
    except JaqalError:
        return f"valid reference rejected: {what}" if must_accept else "~rejected"
    except Exception as ex:
        return f"non-JaqalError escaped: {_exc(ex)} for {what}"
    if must_reject:
        return f"accepted {what} -> r[{i}]"
    if n != len(ref):
        return f"alias size {n}, expected {len(ref)} for {what}"
    if reg is not r or i != ref[idx]:
        return f"resolved to {reg.name}[{i}], expected r[{ref[idx]}] for {what}"
    return ""


# ---------------------------------------------------------------------------------------
# pipeline family: programs through build -> fill_in_let(overrides) -> emulator

def c14_pipeline(tname: str, mask: int, o0: int, o1: int, **leaves) -> str:
    """A template program over the native gate set, with an override dictionary, is pushed through every
    stage up to emulation.  If the reference says some reference cannot be honoured (index outside its
    register or alias, slice outside its source, index applied to a non-register, undefined name, wrong
    arity, value that becomes invalid by override or macro substitution), some stage must raise JaqalError
    -- no other exception type and no result."""
    from jaqalpaq.core.circuitbuilder import build
    from jaqalpaq.core.algorithm import fill_in_let
    from jaqalpaq.run import run_jaqal_circuit
    from .common import program, try_ref, concretely
    from .passes import _overrides
    from .gates import NATIVE, wrap_for_emulator
    from .walk import _raw_tree_ov, _par_collision, _has_repeated_qubit
    sx = wrap_for_emulator(program(tname, leaves))
    ov = _overrides(sx, mask, o0, o1)
    ref, why = try_ref(sx, ov)
    stage = "build"
    try:
        c = build(sx, inject_pulses=NATIVE)
        stage = "fill_in_let"
        c1 = fill_in_let(c, override_dict=ov) if ov else c
        stage = "run"
        from .walk import emulate
        res = emulate(c1)
    except JaqalError as ex:
        if ref is None:
            return "~rejected"
        if stage == "build" and ov and try_ref(sx, {})[0] is None:
            return "~rejected (invalid with the declared values; only the override would make it valid)"
        size = None
        for st in sx[1:]:
            if st[0] == "register":
                size = st[2]
        if concretely(_has_repeated_qubit, ref):
            return "~rejected (repeated qubit argument)"
        try:
            rt = concretely(_raw_tree_ov, sx, ov)
            allq = [(q[1], q[2]) for q in []]
            env_regs = [st for st in sx[1:] if st[0] == "register"]
            n = env_regs[0][2]
            n = ov.get(n, None) if isinstance(n, str) and n in ov else (next(s[2] for s in sx[1:] if s[0] == "let" and s[1] == n) if isinstance(n, str) else n)
            if concretely(_par_collision, rt, [(env_regs[0][1], q) for q in range(int(n))]):
                return "~rejected (overlapping parallel branches)"
        except Exception:
            pass
        return f"valid program rejected at {stage}: {ex} :: {sx} {ov}"
    except Exception as ex:
        return f"non-JaqalError escaped at {stage}: {_exc(ex)} :: {sx} {ov}"
    if ref is None:
        return f"program with a reference that cannot be honoured ({why}) was executed :: {sx} {ov}"
    return ""


NAMES = ["a", "b", "c", "d"]


def c14_names(n0: int, n1: int, n2: int, n3: int, u: int, v: int, order: int) -> str:
    """Declarations  let N0 / register N1 / map N2 (a slice of the register) / let N3  with their names drawn from a
    pool of four (the solver picks the collisions), in one of three orders; the body applies a gate to U[0] (U the
    register or the alias) with numeric argument V (one of the two lets).  A name defined twice -- by the same or by
    different kinds of declaration -- must be rejected with JaqalError at the latest at emulation; programs with four
    distinct names are valid and must run."""
    from jaqalpaq.core.circuitbuilder import build
    from jaqalpaq.core.algorithm import fill_in_let
    from .common import try_ref, concrete
    from .gates import NATIVE, wrap_for_emulator
    from .walk import emulate
    N = NAMES
    L0, Rg, Al, L1 = ["let", N[n0], 1], ["register", N[n1], 3], ["map", N[n2], N[n1], 0, 2, 1], ["let", N[n3], 0]
    decl = [[L0, Rg, Al, L1], [Rg, L0, L1, Al], [L1, Rg, Al, L0]][order]
    U = [N[n1], N[n2]][u]
    V = [N[n0], N[n3]][v]
    body = [["gate", "g1", ("array_item", U, 0)], ["gate", "h1", ("array_item", N[n1], 2), V]]
    sx = concrete(wrap_for_emulator(["circuit"] + decl + body))
    ref, why = try_ref(sx, {})
    distinct = len({n0, n1, n2, n3}) == 4
    if distinct and ref is None:
        return f"harness error: reference rejects a program with distinct names ({why}) :: {sx}"
    stage = "build"
    try:
        c = build(sx, inject_pulses=NATIVE)
        stage = "fill_in_let"
        c1 = fill_in_let(c)
        stage = "run"
        emulate(c1)
    except JaqalError as ex:
        if not distinct:
            return "~rejected"
        return f"valid program rejected at {stage}: {ex} :: {sx}"
    except Exception as ex:
        return f"non-JaqalError escaped at {stage}: {_exc(ex)} :: {sx}"
    if not distinct:
        return f"program defining a name twice was executed :: {sx}"
    return ""


def _install_pulse_modules(defs_a, defs_b):
    import sys
    import types
    for name, defs in (("vf_pulses_a", defs_a), ("vf_pulses_b", defs_b)):
        m = types.ModuleType(name)
        m.jaqal_gates = types.SimpleNamespace(ALL_GATES=defs)
        sys.modules[name] = m


def c14_gatesets(inj: int, ma: int, mb: int, nargs: int, other: bool, as_list: bool = False) -> str:
    """Gate gx is defined (with arity inj-1 / ma-1 / mb-1, 0 meaning 'not defined') by the injected set, by
    the earlier import A and by the later import B.  Precedence injected > later import > earlier import
    decides which arity a call must have; with a native gate set in force an undefined gate is rejected."""
    from jaqalpaq.core.circuitbuilder import build
    from jaqalpaq.core.gatedef import GateDefinition, BusyGateDefinition
    from jaqalpaq.core.parameter import Parameter, ParamType

    def gd(arity, tag):
        return GateDefinition("gx", [Parameter(f"{tag}{k}", ParamType.QUBIT) for k in range(arity)])

    base = {"prepare_all": BusyGateDefinition("prepare_all"), "measure_all": BusyGateDefinition("measure_all")}
    da = dict(base)
    db = {}
    if ma:
        da["gx"] = gd(ma - 1, "a")
    if mb:
        db["gx"] = gd(mb - 1, "b")
    injected = None
    if inj:
        injected = {"gx": gd(inj - 1, "i")}
        if as_list:
            injected = list(injected.values())
    _install_pulse_modules(da, db)
    name = "gy" if other else "gx"
    sx = ["circuit", ["usepulses", "vf_pulses_a", "*"], ["usepulses", "vf_pulses_b", "*"], ["register", "r", 3],
          ["gate", name] + [("array_item", "r", k) for k in range(nargs)]]
    if inj:
        win, src = inj - 1, "injected"
    elif mb:
        win, src = mb - 1, "later import"
    elif ma:
        win, src = ma - 1, "earlier import"
    else:
        win, src = None, None
    want = (not other) and win is not None and win == nargs
    try:
        c = build(sx, inject_pulses=injected, autoload_pulses=True)
    except JaqalError:
        return f"call with {nargs} arguments rejected although {src} defines gx with arity {win}" if want else "~rejected"
    except Exception as ex:
        return f"non-JaqalError escaped: {_exc(ex)} :: inj={inj} a={ma} b={mb} nargs={nargs}"
    if not want:
        return f"call {name} with {nargs} arguments accepted; winning definition: {src} arity {win} (inj={inj} a={ma} b={mb})"
    st = c.body.statements[0]
    tag = {"injected": "i", "later import": "b", "earlier import": "a"}[src]
    if [p.name for p in st.gate_def.parameters] != [f"{tag}{k}" for k in range(nargs)]:
        return f"call bound to the wrong definition ({[p.name for p in st.gate_def.parameters]}), expected the {src}"
    if "gx" not in c.native_gates or c.native_gates["gx"] is not st.gate_def:
        return "circuit.native_gates does not hold the winning definition"
    return ""
