"""Harnesses for the transformation passes (C04 expand_macros, C05 fill_in_let, C06 fill_in_map,
C09 expand_subcircuits, C10 pass algebra)."""
from jaqalpaq.error import JaqalError
from jaqalpaq.core.circuitbuilder import build
from jaqalpaq.core.algorithm import expand_macros, fill_in_let, expand_subcircuits
from jaqalpaq.core.algorithm.fill_in_map import fill_in_map
from jaqalpaq.core.gate import GateStatement
from jaqalpaq.core.block import BlockStatement, LoopStatement
from jaqalpaq.core.constant import Constant
from jaqalpaq.core.register import Register, NamedQubit
from jaqalpaq.core.macro import Macro

from vf.spec import ref as R
from vf.spec.templates import T, FLOATS
from .common import exc, program, try_ref, try_impl, statements, gate_values, header_equal

PULSES = ["usepulses", "vf_pulses.none", "*"]


def _with_pulses(sx, pulses):
    if pulses:
        return [sx[0], PULSES] + list(sx[1:])
    return sx


def _build(sx):
    """Build the program; returns (circuit, '') or (None, reason)."""
    try:
        return build(sx), ""
    except JaqalError as ex:
        return None, str(ex)


def c04_expand(tname: str, preserve: bool, pulses: bool, **leaves) -> str:
    sx = _with_pulses(program(tname, leaves), pulses)
    ref, why = try_ref(sx)
    try:
        c, err = _build(sx)
        if c is None:
            return "~rejected at build"
        out = expand_macros(c, preserve_definitions=preserve)
    except JaqalError as ex:
        return "~rejected" if ref is None else f"valid program rejected by expand_macros: {ex} :: {sx}"
    except Exception as ex:
        return f"non-JaqalError escaped from expand_macros: {exc(ex)} :: {sx}"
    if ref is None:
        return "~reference invalid (" + why + ")"
    for s in statements(out.body):
        if isinstance(s, GateStatement) and (s.name in c.macros or isinstance(s.gate_def, Macro)):
            return f"macro call {s.name} left after expansion :: {sx}"
    m, why = try_impl(out)
    if m is None:
        return f"expanded circuit has no meaning ({why}) :: {sx}"
    if not R.same(m, ref):
        return f"meaning changed by expand_macros: {R.canon(m)} != {R.canon(ref)} :: {sx}"
    h = header_equal(c, out, macros=preserve)
    if h:
        return f"expand_macros: {h} :: {sx}"
    if not preserve and out.macros:
        return "macro definitions kept although preserve_definitions=False"
    return ""


def c04_arity(tname: str, delta: int, **leaves) -> str:
    """A call with one argument too few / too many must be rejected with JaqalError."""
    sx = program(tname, leaves)
    # alter the arity of the first top-level macro call
    names = [st[1] for st in sx[1:] if st[0] == "macro"]
    done = [False]

    def alter(st, top):
        if not isinstance(st, list):
            return st
        if st[0] == "macro" and top:
            return st
        if not done[0] and st[0] == "gate" and st[1] in names:
            done[0] = True
            return st[:-1] if delta < 0 else st + [0]
        return [alter(x, False) for x in st]

    new = [sx[0]] + [alter(st, True) for st in sx[1:]]
    done = done[0]
    if not done:
        return "~no call"
    try:
        c = build(new)
        out = expand_macros(c)
    except JaqalError:
        return ""
    except Exception as ex:
        return f"non-JaqalError escaped: {exc(ex)} :: {new}"
    return f"wrong-arity call accepted :: {new}"


def _overrides(sx, mask, o0, o1):
    lets = [st[1] for st in sx[1:] if st[0] == "let"]
    ov = {}
    vals = [o0, o1, o0]
    for k, name in enumerate(lets[:3]):
        if (mask >> k) & 1:
            ov[name] = vals[k]
    return ov


def c05_letfill(tname: str, pulses: bool, mask: int, o0: int, o1: int, fo: int, **leaves) -> str:
    """fill_in_let with an override dictionary over a subset (mask) of the declared constants.
    fo >= 0 replaces the first override value by the float FLOATS[fo]."""
    sx = _with_pulses(program(tname, leaves), pulses)
    ov = _overrides(sx, mask, o0, o1)
    if fo >= 0:
        for k in list(ov)[:1]:
            ov[k] = FLOATS[fo]
    ref, why = try_ref(sx, ov)
    try:
        c, err = _build(sx)
        if c is None:
            return "~rejected at build"
        out = fill_in_let(c, override_dict=ov)
    except JaqalError as ex:
        return "~rejected" if ref is None else f"valid program rejected by fill_in_let: {ex} :: {sx} {ov}"
    except Exception as ex:
        return f"non-JaqalError escaped from fill_in_let: {exc(ex)} :: {sx} {ov}"
    if ref is None:
        return "~reference invalid (" + why + ")"
    for pos, v in gate_values(out):
        if isinstance(v, Constant):
            return f"constant {v.name} left as {pos} :: {sx} {ov}"
    m, why = try_impl(out, {})
    if m is None:
        return f"let-filled circuit has no meaning ({why}) :: {sx} {ov}"
    if not R.same(m, ref):
        return f"meaning changed by fill_in_let: {R.canon(m)} != {R.canon(ref)} :: {sx} {ov}"
    if list(out.macros) != list(c.macros):
        return "macros lost"
    for k in c.macros:
        if [p.name for p in out.macros[k].parameters] != [p.name for p in c.macros[k].parameters]:
            return "macro parameters changed"
    if out.native_gates != c.native_gates:
        return "native gates changed"
    if out.usepulses != c.usepulses:
        return f"usepulses lost by fill_in_let :: {sx}"
    if list(out.constants) != list(c.constants):
        return "constant declarations lost"
    return ""


def c06_mapfill(tname: str, **leaves) -> str:
    """fill_in_map (after fill_in_let): every qubit reference is rewritten to the fundamental
    register and the meaning is unchanged; used-qubit analysis agrees."""
    from jaqalpaq.core.algorithm.used_qubit_visitor import get_used_qubit_indices
    sx = program(tname, leaves)
    ref, why = try_ref(sx)
    try:
        c, err = _build(sx)
        if c is None:
            return "~rejected at build"
        c1 = fill_in_let(c)
        out = fill_in_map(expand_macros(c1))
    except JaqalError as ex:
        return "~rejected" if ref is None else f"valid program rejected by fill_in_map: {ex} :: {sx}"
    except Exception as ex:
        return f"non-JaqalError escaped from fill_in_map: {exc(ex)} :: {sx}"
    if ref is None:
        return "~reference invalid (" + why + ")"
    outs = [out]
    # directly on the unexpanded circuit fill_in_map may decline (JaqalError) when a macro indexes
    # an alias by a parameter or takes a whole alias as argument; if it answers, the answer must be right
    try:
        outs.append(fill_in_map(c1))
    except JaqalError:
        pass
    except Exception as ex:
        return f"non-JaqalError escaped from fill_in_map: {exc(ex)} :: {sx}"
    for out in outs:
        m, why = try_impl(out)
        if m is None:
            return f"map-filled circuit has no meaning ({why}) :: {sx}"
        if not R.same(m, ref):
            return f"meaning changed by fill_in_map: {R.canon(m)} != {R.canon(ref)} :: {sx}"
        for pos, v in gate_values(out, include_macros=False):
            if pos == "indexed" and isinstance(v, Register) and not v.fundamental:
                return f"alias {v.name} still referenced after fill_in_map :: {sx}"
            if pos == "argument" and isinstance(v, NamedQubit) and isinstance(v.alias_from, Register) and not v.alias_from.fundamental:
                return f"alias qubit {v.name} still referenced after fill_in_map :: {sx}"
        if out.usepulses != c.usepulses:
            return "usepulses lost by fill_in_map"
    # used-qubit analysis on the original circuit agrees with the reference
    try:
        uq = get_used_qubit_indices(expand_macros(c1))
    except JaqalError as ex:
        return f"used-qubit analysis rejected a valid program: {ex} :: {sx}"
    except Exception as ex:
        return f"non-JaqalError escaped from get_used_qubit_indices: {exc(ex)} :: {sx}"
    allq = [(n, i) for n, r in c1.registers.items() if r.fundamental for i in range(int(r.size))]
    want = R.used(ref, allq, busy=())
    got = {(n, i) for n, s in uq.items() for i in s}
    if got != want:
        return f"used qubits {sorted(got)} != {sorted(want)} :: {sx}"
    return ""
