"""Self-tests of the CrossHair plugin patches (vf/ch_plugin.py); run as obligations of every check."""
import math
from collections import defaultdict


def st_format(i: int) -> str:
    """format(i, '') of a symbolic int equals str(i) and stays correct inside f-strings."""
    a = format(i, "")
    b = str(i)
    c = f"r[{i}]"
    if a != b:
        return f"format {a!r} != str {b!r}"
    if len(c) != len(b) + 3 or c[0] != "r" or c[-1] != "]":
        return f"f-string {c!r}"
    return ""


def st_int_of_float(x: float) -> str:
    """int(x) of a symbolic float truncates toward zero."""
    n = int(x)
    if x >= 0:
        if not (n <= x < n + 1):
            return f"int({x!r}) = {n}"
    else:
        if not (n - 1 < x <= n):
            return f"int({x!r}) = {n}"
    return ""


class _K:
    def __init__(self, v):
        self.v = v

    def __hash__(self):
        return hash((_K, "k", self.v))

    def __eq__(self, o):
        return isinstance(o, _K) and o.v == self.v


class _E:
    """equal by v only, hashed by (v, w): violates the hash/eq contract the way jaqalpaq's NamedQubit does"""

    def __init__(self, v, w):
        self.v, self.w = v, w

    def __hash__(self):
        return hash((self.v, self.w))

    def __eq__(self, o):
        return isinstance(o, _E) and o.v == self.v


class _C:
    def __init__(self, v):
        self.v = v

    def __int__(self):
        if isinstance(self.v, int):
            return self.v
        raise ValueError("not an int")


def st_hash_set(i: int, j: int) -> str:
    """user-defined __hash__ over a symbolic field works as a native dict key; set((i,)) merges in place;
    int() of an object with a user-defined __int__ over a symbolic field runs under tracing."""
    d = {}
    d[_K(i)] = 1
    d[_K(j)] = 2
    if len(d) != (1 if i == j else 2):
        return f"dict has {len(d)} keys for {i}, {j}"
    t = defaultdict(set)
    u = t["r"]
    u |= set((i,))
    u |= set((j,))
    if t["r"] != ({i} | {j}):
        return f"in-place set union lost elements: {t['r']}"
    e = {}
    e[("g", (_E(i, 1),))] = 1
    if e.get(("g", (_E(i, 2),))) is not None:
        return "dict.get found a key that is == but hashes differently (CPython would not)"
    try:
        if int(_C(i)) != i:
            return "int(obj) wrong"
    except ValueError:
        return "int(obj) took the native path on a symbolic field"
    return ""
