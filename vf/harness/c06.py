"""C06 core-object family: alias chains built directly from Register/NamedQubit so that every
integer stays symbolic."""
from jaqalpaq.core.register import Register, NamedQubit
from jaqalpaq.core.constant import Constant
from jaqalpaq.error import JaqalError


def chain_core(kinds: str, lazy: bool, size: int, idx: int, a0: int, b0: int, c0: int, a1: int, b1: int, c1: int, a2: int, b2: int, c2: int) -> str:
    """kinds: one letter per link, 's' slice [a:b:c], 'w' whole alias, 'q' single-qubit alias (must be last).
    The reference composes start + i*step along the chain over explicit element lists."""
    bounds = [(a0, b0, c0), (a1, b1, c1), (a2, b2, c2)]
    r = Register("r", size)
    elems = list(range(size))      # reference: fundamental index of each element of the current link
    cur = r
    valid = True
    k = 0
    qubit = None
    try:
        for n, kind in enumerate(kinds):
            if kind == "w":
                cur = Register(f"w{n}", alias_from=cur)
            elif kind == "s":
                a, b, c = bounds[k]
                k += 1
                # lazy: bounds given as let constants, which only fill_in_let validates; here they are just never dereferenced
                if b > len(elems) and not lazy:
                    valid = False
                new = []
                j = a
                while j < b:
                    if j >= len(elems):
                        if not lazy:
                            valid = False
                        break
                    new.append(elems[j])
                    j += c
                elems = new
                if lazy:
                    cur = Register(f"s{n}", alias_from=cur, alias_slice=slice(Constant("ca", a), Constant("cb", b), Constant("cc", c)))
                else:
                    cur = Register(f"s{n}", alias_from=cur, alias_slice=slice(a, b, c))
            else:
                if not (0 <= idx < len(elems)):
                    valid = False
                qubit = NamedQubit(f"q{n}", cur, idx)
        if qubit is None:
            if not (0 <= idx < len(elems)):
                valid = False
            qubit = cur[idx]
        reg, i = qubit.resolve_qubit()
    except JaqalError:
        return "~rejected" if not valid else f"valid chain rejected: {kinds} size={size} idx={idx} {bounds}"
    except Exception as ex:
        return f"non-JaqalError escaped: {type(ex).__name__}: {ex} for {kinds} size={size} idx={idx} {bounds}"
    if not valid:
        return f"invalid chain accepted: {kinds} size={size} idx={idx} {bounds} -> r[{i}]"
    if reg is not r or i != elems[idx]:
        return f"resolved to {reg.name}[{i}], expected r[{elems[idx]}]: {kinds} size={size} idx={idx} {bounds}"
    return ""
