"""Driver: python -m vf.run <Cxx> --tier quick|thorough

exit 0  every obligation discharged (known findings, if any, are printed and excluded)
exit 1  a replayed violation that known_findings.json does not list (VIOLATION line)
exit 2  inconclusive (some obligation not exhausted / solver unknown); never a VIOLATION line
exit 3  harness error (counterexample that does not replay, tool crash, self-test failure)
"""
import argparse
import concurrent.futures as cf
import dataclasses
import importlib
import json
import os
import re
import shutil
import subprocess
import sys
import tempfile
import time

from . import chrun
from .jobs import CH, SMT

HERE = os.path.dirname(os.path.abspath(__file__))
ROOT = os.path.dirname(HERE)
PY = os.path.join(ROOT, ".venv", "bin", "python")
REPLAYS = os.path.join(ROOT, "replays")
EVIDENCE = os.path.join(ROOT, "evidence")
KNOWN = os.path.join(ROOT, "known_findings.json")


def _env():
    env = dict(os.environ)
    env["PYTHONPATH"] = ROOT + os.pathsep + env.get("PYTHONPATH", "")
    if env.get("VF_REPO_SRC"):
        # development only (seeded-change experiments in a scratch worktree): take jaqalpaq from another tree
        env["PYTHONPATH"] = env["VF_REPO_SRC"] + os.pathsep + env["PYTHONPATH"]
    env["PYTHONHASHSEED"] = "0"
    return env


def load_known(prop):
    if not os.path.exists(KNOWN):
        return []
    with open(KNOWN) as fh:
        data = json.load(fh)
    return [f for f in data.get("findings", []) if f["property"] == prop]


def write_replay(prop, jobname, func, args, diagnostic):
    os.makedirs(REPLAYS, exist_ok=True)
    rec = {"property": prop, "job": jobname, "func": func,
           "args_repr": {k: repr(v) for k, v in args.items()}, "diagnostic": diagnostic}
    safe = re.sub(r"[^A-Za-z0-9_.-]", "_", jobname)
    path = os.path.join(REPLAYS, f"{prop}_{safe}.json")
    with open(path, "w") as fh:
        json.dump(rec, fh, indent=1)
    return path


def run_replay(path):
    p = subprocess.run([PY, "-m", "vf.replay", path], cwd=ROOT, env=_env(), capture_output=True, text=True, timeout=600)
    return p.returncode, (p.stdout + p.stderr).strip()


def run_smt(job: SMT, scale=1.0):
    t0 = time.time()
    try:
        p = subprocess.run([PY, "-m", "vf.smtrun", job.func, json.dumps(job.kwargs)], cwd=ROOT, env=_env(),
                           capture_output=True, text=True, timeout=job.timeout * scale)
        out = p.stdout
        err = p.stderr
    except subprocess.TimeoutExpired:
        return {"job": job.name, "status": "unknown", "detail": f"wall timeout {job.timeout * scale}s", "wall_s": round(time.time() - t0, 2),
                "queries": 0, "solver_time_s": 0.0, "samples": [], "replay": None, "vacuity_ok": True, "extra": {}}
    res = None
    for line in out.splitlines():
        if line.startswith("VFRESULT "):
            res = json.loads(line[len("VFRESULT "):])
    if res is None:
        res = {"status": "error", "detail": (err or "")[-2000:] + out[-500:], "queries": 0, "solver_time_s": 0.0,
               "samples": [], "replay": None, "vacuity_ok": True, "extra": {}}
    res["job"] = job.name
    res["wall_s"] = round(time.time() - t0, 2)
    return res


def selftest_jobs():
    """Obligations proving that the CrossHair plugin patches preserve semantics (part of every check)."""
    H = "vf.harness.selftest"
    return [
        CH(name="plugin_selftest_format", func=f"{H}:st_format", params=[("i", "int")], pre=["-100000 <= i <= 100000"], timeout=60, note="plugin patch: format(i,'') == str(i) for symbolic int", functions=["vf/ch_plugin.py"]),
        CH(name="plugin_selftest_hash_set", func=f"{H}:st_hash_set", params=[("i", "int"), ("j", "int")], pre=["0 <= i <= 3", "0 <= j <= 3"], timeout=60, note="plugin patches: hash()/set()/int(obj)", functions=["vf/ch_plugin.py"]),
    ]


def region_pre(region, job: CH):
    """Precondition excluding a known-finding region; concrete (fixed) arguments are bound by a lambda."""
    expr = f"not ({region})"
    names = {n for n, _ in job.params}
    for k, v in job.fixed.items():
        if re.search(r"\b" + re.escape(k) + r"\b", region) and k not in names:
            expr = f"(lambda {k}: {expr})({v!r})"
    return expr


def region_applies(region, job: CH):
    """A region only applies to a job if every free name of the region is an argument of the job."""
    import ast
    names = {n.id for n in ast.walk(ast.parse(region, mode="eval")) if isinstance(n, ast.Name)}
    have = {n for n, _ in job.params} | set(job.fixed) | {"abs", "min", "max", "len", "True", "False", "None"}
    return names <= have


def _stop_if_violated(prop, job, r, workdir, t_start):
    """--first: replay a candidate at once; if it reproduces, report it, stop all running jobs and exit 1."""
    import shutil
    import signal
    import subprocess
    if isinstance(job, CH):
        if r["verdict"] != "counterexample" or r["args"] is None:
            return
        args = dict(job.fixed)
        args.update(r["args"])
        path = write_replay(prop, job.name, job.func, args, r["message"])
    else:
        if r["status"] != "sat" or not r.get("replay"):
            return
        path = write_replay(prop, job.name, r["replay"]["func"], r["replay"]["args"], r.get("detail", ""))
    rc, out = run_replay(path)
    if rc != 1:
        return
    print(f"VIOLATION property={prop} replay={path}")
    print(f"  job={job.name}: {out}")
    print(f"{prop}: stopped at the first violation after {round(time.time() - t_start, 1)} s, exit 1")
    sys.stdout.flush()
    me = os.getpid()
    tree = subprocess.run("ps -eo pid,ppid", shell=True, capture_output=True, text=True).stdout.splitlines()[1:]
    kids = {}
    for l in tree:
        pid, ppid = map(int, l.split())
        kids.setdefault(ppid, []).append(pid)
    todo, victims = [me], []
    while todo:
        for c in kids.get(todo.pop(), []):
            victims.append(c)
            todo.append(c)
    for v in victims:
        try:
            os.kill(v, signal.SIGKILL)
        except Exception:
            pass
    shutil.rmtree(workdir, ignore_errors=True)
    os._exit(1)


def main(argv=None):
    ap = argparse.ArgumentParser()
    ap.add_argument("prop")
    ap.add_argument("--tier", default=os.environ.get("VERIF_TIER", "quick"), choices=["quick", "thorough"])
    ap.add_argument("--only", default=None, help="regex on job names (debugging)")
    ap.add_argument("--workers", type=int, default=int(os.environ.get("VF_WORKERS", "16")))
    ap.add_argument("--keep", action="store_true")
    ap.add_argument("--no-evidence", action="store_true")
    ap.add_argument("--first", action="store_true", help="stop at the first violation that replays (seeded-change experiment; writes no evidence)")
    a = ap.parse_args(argv)
    prop = a.prop.upper()
    seed = int(os.environ.get("VERIF_SEED", "0") or 0)
    t_start = time.time()
    mod = importlib.import_module(f"vf.props.{prop.lower()}")
    jobs = mod.jobs(a.tier) + selftest_jobs()
    if a.only:
        jobs = [j for j in jobs if re.search(a.only, j.name)]
    # shard order is permuted by the seed (the search itself is exhaustive)
    if seed:
        import random
        random.Random(seed).shuffle(jobs)
    known = load_known(prop)
    workdir = tempfile.mkdtemp(prefix=f"vf_{prop}_")
    exit_code = 0
    lines = []
    known_active = []
    try:
        # 1. known findings: replay each witness; a finding that still reproduces is printed and its region excluded
        for kf in known:
            jb = next((j for j in jobs if isinstance(j, CH) and j.kbase == kf["job"]), None)
            func = kf.get("func") or (jb.func if jb else None)
            if func is None:
                continue
            path = write_replay(prop, "known_" + kf["id"], func, kf["witness"], kf["what"])
            rc, out = run_replay(path)
            if rc == 1:
                print(f"KNOWN-FINDING: property={prop} {kf['what']} [{kf['id']}; witness {kf['witness']}]")
                known_active.append(kf)
            else:
                print(f"note: known finding {kf['id']} no longer reproduces on this tree; its region is searched again")

        def extra_pre_for(job):
            if not isinstance(job, CH):
                return ()
            return tuple(region_pre(k["region"], job) for k in known_active
                         if k["job"] == job.kbase and k.get("region") and region_applies(k["region"], job))

        # 2. run everything
        results = {}

        def one(job, scale=1.0):
            if isinstance(job, CH):
                return chrun.run(job, workdir, extra_pre_for(job), timeout_scale=scale)
            return run_smt(job, scale)

        with cf.ThreadPoolExecutor(max_workers=a.workers) as ex:
            futs = {ex.submit(one, j): j for j in jobs}
            for f in cf.as_completed(futs):
                results[futs[f].name] = f.result()
                if a.first:
                    _stop_if_violated(prop, futs[f], f.result(), workdir, t_start)
        # 3. one retry, with a longer budget, for jobs that did not exhaust
        def inconclusive(job, r):
            if isinstance(job, CH):
                return r["verdict"] in ("not_confirmed", "no_precondition", "tool_error") or (
                    r["verdict"] == "confirmed" and job.twin and r["twin"] != "counterexample")
            return r["status"] in ("unknown",)
        retry = [j for j in jobs if inconclusive(j, results[j.name])]
        if retry:
            with cf.ThreadPoolExecutor(max_workers=a.workers) as ex:
                futs = {ex.submit(one, j, 3.0): j for j in retry}
                for f in cf.as_completed(futs):
                    r = f.result()
                    r["retried"] = True
                    results[futs[f].name] = r

        # 4. classify
        violations, inconcl, herr, notenc = [], [], [], []
        for job in jobs:
            r = results[job.name]
            if isinstance(job, CH):
                v = r["verdict"]
                if v == "counterexample":
                    if r["args"] is None:
                        herr.append((job.name, "could not parse counterexample: " + r["message"]))
                        continue
                    args = dict(job.fixed)
                    args.update(r["args"])
                    path = write_replay(prop, job.name, job.func, args, r["message"])
                    rc, out = run_replay(path)
                    r["replay"] = out
                    if rc == 1:
                        violations.append((job.name, path, out))
                    else:
                        herr.append((job.name, f"counterexample does not replay: {r['message']} / {out}"))
                elif v == "confirmed":
                    if job.twin and r["twin"] != "counterexample":
                        inconcl.append((job.name, f"vacuity twin: {r['twin']}"))
                elif v == "tool_error":
                    herr.append((job.name, r["message"][-600:]))
                else:
                    inconcl.append((job.name, v))
            else:
                s = r["status"]
                if s == "sat":
                    rp = r.get("replay")
                    if not rp:
                        herr.append((job.name, "sat without replay record: " + r.get("detail", "")))
                        continue
                    path = write_replay(prop, job.name, rp["func"], rp["args"], r.get("detail", ""))
                    rc, out = run_replay(path)
                    r["replay_out"] = out
                    if rc == 1:
                        violations.append((job.name, path, out))
                    else:
                        herr.append((job.name, f"solver model does not replay on the real code: {r.get('detail')} / {out}"))
                elif s == "unsat":
                    if not r.get("vacuity_ok", True):
                        inconcl.append((job.name, "vacuity check failed"))
                elif s == "not_encoded":
                    # the current source is outside what the translator accepts: nothing was explored by this obligation
                    # (not-applicable on this tree, reported and recorded; the other obligations still decide the property)
                    notenc.append((job.name, r.get("detail", "")[:300]))
                elif s == "unknown":
                    inconcl.append((job.name, "solver unknown/timeout: " + r.get("detail", "")[:200]))
                else:
                    herr.append((job.name, r.get("detail", "")[-800:]))

        for name, path, out in violations:
            print(f"VIOLATION property={prop} replay={path}")
            print(f"  job={name}: {out}")
        for name, why in notenc:
            print(f"NOT-ENCODED property={prop} job={name}: {why} (obligation not applicable to this source; not counted as discharged)")
        for name, why in inconcl:
            print(f"INCONCLUSIVE property={prop} job={name}: {why}")
        for name, why in herr:
            print(f"HARNESS-ERROR property={prop} job={name}: {why}")
        if violations:
            exit_code = 1
        elif herr:
            exit_code = 3
        elif inconcl:
            exit_code = 2

        # 5. evidence
        if not a.no_evidence and not a.only:
            write_evidence(prop, a.tier, seed, mod, jobs, results, known_active, violations, inconcl, herr, time.time() - t_start)
        n_ch = sum(isinstance(j, CH) for j in jobs)
        n_smt = len(jobs) - n_ch
        paths = sum(results[j.name].get("paths", 0) for j in jobs if isinstance(j, CH))
        print(f"{prop} {a.tier}: {len(jobs)} obligations ({n_ch} symbolic-execution, {n_smt} solver), "
              f"{len(jobs) - len(violations) - len(inconcl) - len(herr) - len(notenc)} discharged, {paths} paths, "
              f"{round(time.time() - t_start, 1)} s, exit {exit_code}")
    finally:
        if a.keep:
            print("workdir kept:", workdir)
        else:
            shutil.rmtree(workdir, ignore_errors=True)
    return exit_code


def write_evidence(prop, tier, seed, mod, jobs, results, known_active, violations, inconcl, herr, wall):
    os.makedirs(EVIDENCE, exist_ok=True)
    obligations = []
    paths = oracle = queries = 0
    solver_time = 0.0
    samples = []
    functions = set()
    bad = {n for n, *_ in violations} | {n for n, _ in inconcl} | {n for n, _ in herr}
    for j in jobs:
        r = results[j.name]
        functions.update(j.functions)
        if isinstance(j, CH):
            paths += r.get("paths", 0)
            oracle += r.get("oracle_paths", 0)
            solver_time += r.get("wall_s", 0.0)
            ob = {"name": j.name, "engine": "crosshair", "harness": j.func, "symbolic": [f"{n}: {t}" for n, t in j.params],
                  "bounds": j.pre, "fixed": {k: repr(v) for k, v in j.fixed.items()}, "verdict": r["verdict"],
                  "twin": r["twin"], "paths": r.get("paths", 0), "oracle_paths": r.get("oracle_paths", 0),
                  "wall_s": r.get("wall_s"), "timeout_s": r.get("timeout"), "note": j.note}
            if r.get("twin_args") is not None and len(samples) < 12:
                samples.append({"obligation": j.name, "oracle_reached_with": {**{k: repr(v) for k, v in j.fixed.items()}, **{k: repr(v) for k, v in r["twin_args"].items()}}})
        else:
            queries += r.get("queries", 0)
            solver_time += r.get("solver_time_s", 0.0)
            ob = {"name": j.name, "engine": "smt", "encoder": j.func, "params": j.kwargs, "verdict": r["status"],
                  "queries": r.get("queries", 0), "solver_time_s": r.get("solver_time_s"), "wall_s": r.get("wall_s"),
                  "detail": r.get("detail", "")[:400], "note": j.note, "extra": r.get("extra", {})}
            for s in r.get("samples", [])[:3]:
                if len(samples) < 16:
                    samples.append({"obligation": j.name, "sample": s})
        obligations.append(ob)
    meta = getattr(mod, "META", {})
    if not samples:
        samples = [{"obligation": j.name} for j in jobs[:3]]
    not_encoded = [(j.name, results[j.name].get("detail", "")[:300]) for j in jobs if isinstance(j, SMT) and results[j.name]["status"] == "not_encoded"]
    discharged = len(jobs) - len(bad) - len(not_encoded)
    ev = {
        "property_id": prop,
        "tier": tier,
        "seed": seed,
        "level": "model_checking",
        "coverage": {
            "evaluations": max(1, paths + queries),
            "distinct_nontrivial": oracle + sum(1 for j in jobs if isinstance(j, SMT) and results[j.name]["status"] == "unsat"),
            "rule": "evaluations = symbolic execution paths explored by CrossHair over all obligations (each path is a distinct path "
                    "condition over the symbolic arguments, counted inside the harness process) + SMT queries issued; a path is "
                    "non-trivial when it ran the real code to the point where the oracle was evaluated (harness returned '' rather "
                    "than '~rejected'); an SMT obligation is non-trivial when its negated-property query was unsat and its "
                    "satisfiable twin was sat.",
            "samples": samples,
            "obligations": len(jobs),
            "discharged": discharged,
            "exhaustive": not bad and not not_encoded,
            "not_encoded": [list(x) for x in not_encoded],
            "paths_explored": paths,
            "oracle_paths": oracle,
            "smt_queries": queries,
            "solver_time_s": round(solver_time, 2),
            "functions_encoded": sorted(functions),
            "bounds": meta.get("bounds", {}).get(tier, meta.get("bounds", "")),
            "outside_claim": meta.get("outside", []),
            "obligation_list": obligations,
            "known_findings_excluded": [{"id": k["id"], "job": k["job"], "region": k.get("region"), "what": k["what"]} for k in known_active],
            "inconclusive": [list(x) for x in inconcl],
            "harness_errors": [list(x)[:2] for x in herr],
        },
        "assumptions": list(meta.get("assumptions", [])) + [
            "every CrossHair path models the input handed to a freshly started interpreter: module- and class-level state of the jaqalpaq modules is put back "
            "to its import-time contents before each path (vf/harness/isolate.py); state leaking between calls is observed only by the history obligations",
            "CrossHair engine patches of vf/ch_plugin.py (format, int, hash, set, dict.get, user __format__), re-proved by the plugin_selftest obligations of this run",
            "oracles (reference meaning, re-parse of generated text, numeric back end) run natively on realised values (vf/harness/common.py: concretely)"],
        "wall_s": round(wall, 2),
        "violations": len(violations),
    }
    with open(os.path.join(EVIDENCE, f"{prop}.json"), "w") as fh:
        json.dump(ev, fh, indent=1, default=repr)


if __name__ == "__main__":
    sys.exit(main())
