"""Development aid: python -m vf.timing Cxx [tier] -- run a check and list its obligations by wall time."""
import json, subprocess, sys, time
prop = sys.argv[1]; tier = sys.argv[2] if len(sys.argv) > 2 else "quick"
t0 = time.time()
p = subprocess.run([sys.executable, "-m", "vf.run", prop, "--tier", tier], capture_output=True, text=True)
print(p.stdout[-3000:]); print(p.stderr[-1500:])
e = json.load(open(f"/verif/evidence/{prop}.json"))
obs = e["coverage"]["obligation_list"]
obs.sort(key=lambda o: -(o.get("wall_s") or 0))
for o in obs[:12]:
    print(o["name"], o["verdict"], o.get("twin"), o.get("paths"), o.get("oracle_paths"), o.get("wall_s"))
print("total wall", round(time.time() - t0, 1), "exit", p.returncode, "jobs", len(obs), "sum wall", round(sum(o.get("wall_s") or 0 for o in obs)))
