"""Development tool for the seeded-change experiment (not a check).

  python -m vf.seedtest verify <src_dir> <k> <name>     confirm, in a scratch worktree, that patch<k> applies, the
                                                        test suite passes with it, demo<k> fails with it and passes without;
                                                        store it as /verif/seeded/<name>/
  python -m vf.seedtest run <name> <Cxx> [tier]         apply /verif/seeded/<name>/patch.diff to /repo, run the check, undo
"""
import json
import os
import shutil
import subprocess
import sys
import time

SEEDED = "/verif/seeded"


def sh(cmd, **kw):
    return subprocess.run(cmd, shell=True, capture_output=True, text=True, **kw)


def verify(src, k, name):
    wt = f"/tmp/seedverify_{name}"
    sh(f"git -C /repo worktree remove --force {wt}")
    r = sh(f"git -C /repo worktree add --detach {wt} HEAD")
    out = {"name": name, "source": src, "k": k}
    try:
        patch = os.path.join(src, f"patch{k}.diff")
        demo = os.path.join(src, f"demo{k}.py")
        env = dict(os.environ, PYTHONPATH=f"{wt}/src")
        base = sh(f"/venv/bin/python {demo}", cwd=wt, env=env, timeout=300)
        out["demo_passes_without"] = base.returncode == 0
        ap = sh(f"git -C {wt} apply {patch}")
        out["applies"] = ap.returncode == 0
        t = sh("/venv/bin/python -m pytest -q -p no:cacheprovider --deselect tests/ipc 2>&1 | tail -3", cwd=wt, env=env, timeout=900)
        out["tests"] = t.stdout.strip().splitlines()[-1] if t.stdout.strip() else t.stderr[-200:]
        out["tests_pass"] = " passed" in out["tests"] and "failed" not in out["tests"] and "error" not in out["tests"]
        try:
            d = sh(f"/venv/bin/python {demo}", cwd=wt, env=env, timeout=120)
            out["demo_fails_with_patch"] = d.returncode != 0
            out["demo_output"] = (d.stdout + d.stderr)[-400:]
        except subprocess.TimeoutExpired:
            out["demo_fails_with_patch"] = True
            out["demo_output"] = "timeout (hang)"
        ok = out["applies"] and out["tests_pass"] and out["demo_fails_with_patch"] and out["demo_passes_without"]
        out["confirmed"] = ok
        if ok:
            dst = os.path.join(SEEDED, name)
            os.makedirs(dst, exist_ok=True)
            shutil.copy(patch, os.path.join(dst, "patch.diff"))
            shutil.copy(demo, os.path.join(dst, "demo.py"))
            notes = {}
            try:
                notes = json.load(open(os.path.join(src, f"notes{k}.json")))
            except Exception:
                pass
            meta = {"breaks_property": name.split("_")[0], "summary": notes.get("summary", ""), "needs": notes.get("needs", ""),
                    "verified": {"command_tests": "PYTHONPATH=<worktree>/src /venv/bin/python -m pytest -q -p no:cacheprovider --deselect tests/ipc",
                                 "tests": out["tests"], "demo_fails_with_patch": True, "demo_passes_without": True}, "checks_run": []}
            json.dump(meta, open(os.path.join(dst, "meta.json"), "w"), indent=1)
    finally:
        sh(f"git -C /repo worktree remove --force {wt}")
    print(json.dumps(out, indent=1))
    return out


def run(name, prop, tier="quick"):
    dst = os.path.join(SEEDED, name)
    st = sh("git -C /repo status --porcelain")
    if st.stdout.strip():
        print("refusing: /repo is not clean:", st.stdout)
        return
    ap = sh(f"git -C /repo apply {dst}/patch.diff")
    if ap.returncode:
        print("patch does not apply:", ap.stderr)
        return
    t0 = time.time()
    try:
        r = sh(f"./check {prop} {tier}", cwd="/verif", timeout=6 * 3600)
    finally:
        sh("git -C /repo checkout -- .")
    lines = [l for l in r.stdout.splitlines() if l.startswith(("VIOLATION", "  job=", "INCONCLUSIVE", "HARNESS-ERROR", "KNOWN")) or " obligations (" in l]
    res = {"check": f"./check {prop} {tier}", "exit": r.returncode, "wall_s": round(time.time() - t0, 1), "detected": r.returncode == 1,
           "lines": [l[:300] for l in lines[:8]]}
    meta = json.load(open(os.path.join(dst, "meta.json")))
    meta["checks_run"] = [c for c in meta["checks_run"] if c["check"] != res["check"]] + [res]
    json.dump(meta, open(os.path.join(dst, "meta.json"), "w"), indent=1)
    print(json.dumps(res, indent=1))
    assert not sh("git -C /repo status --porcelain").stdout.strip()


def run_scratch(name, prop, tier="quick", only=None):
    """Like run(), but against a scratch worktree with the patch applied (VF_REPO_SRC), leaving /repo alone.
    Used while other checks are using /repo; the result is recorded as a scratch run."""
    dst = os.path.join(SEEDED, name)
    wt = f"/tmp/seedrun_{name}"
    sh(f"git -C /repo worktree remove --force {wt}")
    sh(f"git -C /repo worktree add --detach {wt} HEAD")
    try:
        ap = sh(f"git -C {wt} apply {dst}/patch.diff")
        if ap.returncode:
            print("patch does not apply:", ap.stderr)
            return
        env = dict(os.environ, VF_REPO_SRC=f"{wt}/src", PYTHONPATH="/verif")
        t0 = time.time()
        cmd = f"/verif/.venv/bin/python -m vf.run {prop} --tier {tier} --no-evidence --first" + (f" --only '{only}'" if only else "")
        r = sh(cmd, cwd="/verif", env=env, timeout=6 * 3600)
    finally:
        sh(f"git -C /repo worktree remove --force {wt}")
    lines = [l for l in r.stdout.splitlines() if l.startswith(("VIOLATION", "  job=", "INCONCLUSIVE", "HARNESS-ERROR", "KNOWN")) or " obligations (" in l or "stopped at the first" in l]
    res = {"check": f"./check {prop} {tier}" + (f" (obligations matching {only})" if only else ""), "mode": "scratch worktree via VF_REPO_SRC; stopped at the first violation that replays", "exit": r.returncode,
           "wall_s": round(time.time() - t0, 1), "detected": r.returncode == 1, "lines": [l[:300] for l in lines[:8]]}
    meta = json.load(open(os.path.join(dst, "meta.json")))
    meta["checks_run"] = [c for c in meta["checks_run"] if c["check"] != res["check"]] + [res]
    json.dump(meta, open(os.path.join(dst, "meta.json"), "w"), indent=1)
    print(name, json.dumps(res)[:600])


def readme():
    rows = []
    for name in sorted(os.listdir(SEEDED)):
        mp = os.path.join(SEEDED, name, "meta.json")
        if not os.path.exists(mp):
            continue
        m = json.load(open(mp))
        runs = m.get("checks_run", [])
        det = [c for c in runs if c.get("detected")]
        status = "DETECTED by " + det[0]["check"] if det else ("not run" if not runs else "MISSED (" + "; ".join(f"{c['check']}: exit {c['exit']}" for c in runs) + ")")
        first = ""
        if det:
            j = [l for l in det[0]["lines"] if l.strip().startswith("job=")]
            first = j[0].strip()[:160] if j else ""
        rows.append((name, m.get("summary", "")[:150].replace("|", "/").replace("\n", " "), m.get("needs", "")[:120].replace("|", "/").replace("\n", " "), status, first.replace("|", "/")))
    with open(os.path.join(SEEDED, "README.md"), "w") as fh:
        fh.write("# Seeded changes\n\nEach directory holds `patch.diff` (a change to jaqalpaq produced by an independent sub-agent that saw only the text of one property), "
                 "`demo.py` (fails with the change, passes without) and `meta.json` (what it breaks, what it needs to manifest, what was run).  "
                 "All were confirmed in a scratch worktree: the patch applies, the 297-test suite passes with it, the demonstration fails with it and passes without.\n\n"
                 "| seed | change | needs | result | first witness |\n|---|---|---|---|---|\n")
        for r in rows:
            fh.write("| " + " | ".join(r) + " |\n")
        n = len(rows)
        d = sum(1 for r in rows if r[3].startswith("DETECTED"))
        fh.write(f"\n{d} of {n} detected.\n")
    print(open(os.path.join(SEEDED, "README.md")).read()[-300:])


if __name__ == "__main__":
    if sys.argv[1] == "verify":
        verify(sys.argv[2], int(sys.argv[3]), sys.argv[4])
    elif sys.argv[1] == "scratch":
        run_scratch(*sys.argv[2:])
    elif sys.argv[1] == "readme":
        readme()
    else:
        run(*sys.argv[2:])
