"""Run one solver job in its own process: python -m vf.smtrun module:function '<kwargs json>'."""
import dataclasses
import importlib
import json
import sys
import traceback

from .jobs import SmtResult


def main(argv):
    module, function = argv[1].split(":")
    kwargs = json.loads(argv[2]) if len(argv) > 2 else {}
    try:
        fn = getattr(importlib.import_module(module), function)
        res = fn(**kwargs)
    except Exception:
        res = SmtResult(status="error", detail=traceback.format_exc()[-3000:])
    print("VFRESULT " + json.dumps(dataclasses.asdict(res), default=repr))
    return 0


if __name__ == "__main__":
    sys.exit(main(sys.argv))
